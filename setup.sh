#!/bin/bash
# Builds the overlay venv the checks run in (offline, idempotent).
# /verif/.venv = /venv's python + /venv's site-packages (read-only, via .pth) + solver wheels.
set -e
cd "$(dirname "$0")"
V=.venv
if [ -x $V/bin/python ] && $V/bin/python -c 'import z3, jsonschema, crosshair, numpy, attr, sympy' 2>/dev/null; then
  exit 0
fi
rm -rf $V
/venv/bin/python -m venv $V
SP=$($V/bin/python -c 'import sysconfig; print(sysconfig.get_paths()["purelib"])')
printf "import site; site.addsitedir('/venv/lib/python3.12/site-packages')\n" > $SP/overlay.pth
PIP_NO_INDEX=1 $V/bin/pip install -q --no-index --find-links /opt/veriftools/wheels z3-solver crosshair-tool jsonschema cvc5 sympy >/dev/null 2>$V/pip.err || { cat $V/pip.err; exit 3; }
$V/bin/python -c 'import z3, jsonschema, crosshair, numpy, attr, sympy; print("verif venv ready, z3", z3.get_version_string())'

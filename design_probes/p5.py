import sys, types, inspect, numpy
import pyvaporation as pv
import pyvaporation.mixtures.mixture as mm
srcm = inspect.getsource(mm)
bad = """            * (tau_12 / (theta_2_interaction + theta_1_interaction * tau_21)
               - tau_12 / (theta_1_interaction + theta_2_interaction * tau_12))"""
good = """            * (tau_12 / (theta_2_interaction + theta_1_interaction * tau_12)
               - tau_21 / (theta_1_interaction + theta_2_interaction * tau_21))"""
m2 = types.ModuleType('pyvaporation.mixtures.mixture_fixed'); m2.__package__ = 'pyvaporation.mixtures'
exec(compile(srcm.replace(bad, good), 'fixed', 'exec'), m2.__dict__)
def gd(mod, mix, T, x, h=1e-6):
    C = lambda p: mod.Composition(p=p, type='molar')
    a = mod.calculate_activity_coefficients(T, mix, C(x+h), "UNIQUAC"); b = mod.calculate_activity_coefficients(T, mix, C(x-h), "UNIQUAC")
    return x*(numpy.log(a[0])-numpy.log(b[0]))/(2*h) + (1-x)*(numpy.log(a[1])-numpy.log(b[1]))/(2*h)
for name in ['H2O_EtOH','H2O_MeOH','MeOH_DMC']:
    mix = getattr(pv.Mixtures, name)
    for x in (0.2, 0.5, 0.8):
        print(name, x, "current %.3e" % gd(mm, mix, 330., x), "fixed %.3e" % gd(m2, mix, 330., x))

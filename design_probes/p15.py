import z3, time
for n in (2, 3, 4):
    T = [z3.Real('T%d' % i) for i in range(n)]; E, c0, s, c, Rg = z3.Reals('E c0 s c Rg')
    x = [1 / t for t in T]; y = [c0 - (E / Rg) * xi for xi in x]
    sol = z3.Solver(); sol.set('timeout', 120000)
    sol.add(Rg == z3.RealVal('8.314462'))
    for t in T: sol.add(t > 273, t < 400)
    sol.add(z3.Distinct(*T))
    sxx = sum(xi * xi for xi in x); sx = sum(x); sxy = sum(xi * yi for xi, yi in zip(x, y)); sy = sum(y)
    sol.add(sxx * s + sx * c == sxy, sx * s + n * c == sy)
    import sys
    sol.add(-s * Rg != (2 * E if len(sys.argv) > 1 else E)); sol.add(E > 1000)
    t0 = time.time(); print(n, sol.check(), "%.2fs" % (time.time() - t0))

import sys, numpy, z3, types
sys.path.insert(0, '/verif/design_probes')
import symx
from symx import S, real, explore
import pyvaporation as pv
import pyvaporation.optimizer.optimizer as om
calls = []
class Res: pass
def stub_minimize(fun, x0, method=None, **kw):
    k = len(calls)
    x = numpy.empty(len(x0), dtype=object)
    for i in range(len(x0)): x[i] = real('c%d_%d' % (k, i))
    calls.append((fun, list(x0), method, x))
    r = Res(); r.x = x; return r
om.optimize = types.SimpleNamespace(minimize=stub_minimize)
M = om.Measurement
def mk():
    return pv.Measurements(data=[M(x=real('x%d' % i), t=real('t%d' % i), p=real('p%d' % i)) for i in range(3)])
data = None
def run(include_zero, n, m):
    def f():
        global data
        calls.clear(); data = mk(); before = list(data.data)
        r = pv.find_best_fit(data, include_zero=include_zero, component_index=0, n=n, m=m)
        return before, list(data.data), r
    return f
for iz in (False, True):
    st = dict(paths=0, same=0, mutated=0, grid=set())
    for ctx, (kind, out) in explore(run(iz, 1, 1), []):
        st['paths'] += 1
        if kind != 'ok': print(kind, repr(out)[:200]); continue
        before, after, r = out
        if len(before) == len(after) and all(a is b for a, b in zip(before, after)): st['same'] += 1
        else: st['mutated'] += 1
        st['grid'].add(tuple(len(c[1]) for c in calls))
    print("include_zero", iz, st)

import typing
from pyvaporation.permeance import Permeance, Units
from pyvaporation.mixtures.mixture import Composition

def _clamp(v: float) -> float:
    """
    post: _ >= 0
    """
    return Permeance(value=v).value

def _comp_rejects(p: float) -> float:
    """
    pre: not (0 <= p <= 1)
    post: False
    raises: ValueError
    """
    return Composition(p=p, type="weight").p

def _roundtrip_gpu_si(v: float) -> float:
    """
    pre: 0 <= v <= 1e6
    post: _ == v
    """
    return Permeance(value=v, units="GPU").convert("SI").convert("GPU").value

def _unknown_units(v: float, u: str) -> float:
    """
    pre: v >= 0 and u not in ("GPU", "SI", "kg/(m2*h*kPa)") and len(u) <= 3
    post: False
    raises: KeyError, ValueError
    """
    return Permeance(value=v, units="SI").convert(u).value

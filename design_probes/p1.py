import z3, numpy, time
EXP = z3.Function('EXP', z3.RealSort(), z3.RealSort())
LOG = z3.Function('LOG', z3.RealSort(), z3.RealSort())
def lift(v):
    if isinstance(v, S): return v.t
    if isinstance(v, (int, float, numpy.floating, numpy.integer)):
        return z3.RealVal(repr(float(v))) if not float(v).is_integer() else z3.RealVal(int(v))
    raise TypeError(type(v))
class S:
    __array_priority__ = 1000
    def __init__(s, t): s.t = t
    def __add__(a, b): return S(a.t + lift(b))
    def __radd__(a, b): return S(lift(b) + a.t)
    def __sub__(a, b): return S(a.t - lift(b))
    def __rsub__(a, b): return S(lift(b) - a.t)
    def __mul__(a, b): return S(a.t * lift(b))
    def __rmul__(a, b): return S(lift(b) * a.t)
    def __truediv__(a, b): return S(a.t / lift(b))
    def __rtruediv__(a, b): return S(lift(b) / a.t)
    def __neg__(a): return S(-a.t)
    def __pow__(a, n):
        assert isinstance(n, int) and n >= 0
        r = z3.RealVal(1)
        for _ in range(n): r = r * a.t
        return S(r)
    def __rpow__(a, base):
        return S(EXP(a.t * LOG(lift(base))))
    def exp(a): return S(EXP(a.t))
    def log(a): return S(LOG(a.t))
    def __eq__(a, b): raise RuntimeError("branch on eq")
    def __bool__(a): raise RuntimeError("bool")
    __hash__ = None
    def __repr__(s): return "S(%s)" % s.t

import pyvaporation as pv
from pyvaporation.mixtures.mixture import calculate_activity_coefficients, get_partial_pressures
R = lambda n: S(z3.Real(n))
x = R('x')
comp = pv.Composition.__new__(pv.Composition); comp.p = x; comp.type = 'molar'
c1 = pv.Components.H2O; c2 = pv.Components.EtOH
mix = pv.Mixture(name='m', first_component=c1, second_component=c2,
                 nrtl_params=pv.NRTLParameters(g12=R('g12'), g21=R('g21'), alpha12=R('al12'), alpha21=R('al21'), a12=R('a12'), a21=R('a21')))
T = R('T')
g1, g2 = calculate_activity_coefficients(T, mix, comp, "NRTL")
print(type(g1))

def deriv(t, v, cache):
    k = t.get_id()
    if k in cache: return cache[k]
    d = _deriv(t, v, cache); cache[k] = d; return d
def _deriv(t, v, cache):
    if z3.is_rational_value(t) or z3.is_int_value(t): return z3.RealVal(0)
    if z3.is_const(t): return z3.RealVal(1) if t.eq(v) else z3.RealVal(0)
    k = t.decl().kind(); ch = t.children()
    if k == z3.Z3_OP_ADD:
        return z3.Sum([deriv(c, v, cache) for c in ch])
    if k == z3.Z3_OP_SUB:
        r = deriv(ch[0], v, cache)
        for c in ch[1:]: r = r - deriv(c, v, cache)
        return r
    if k == z3.Z3_OP_UMINUS: return -deriv(ch[0], v, cache)
    if k == z3.Z3_OP_MUL:
        terms = []
        for i, c in enumerate(ch):
            dc = deriv(c, v, cache)
            if z3.is_rational_value(dc) and dc.numerator_as_long() == 0: continue
            terms.append(z3.Product([dc] + [o for j, o in enumerate(ch) if j != i]))
        return z3.Sum(terms) if terms else z3.RealVal(0)
    if k == z3.Z3_OP_DIV:
        a, b = ch
        return (deriv(a, v, cache) * b - a * deriv(b, v, cache)) / (b * b)
    if k == z3.Z3_OP_UNINTERPRETED:
        n = t.decl().name()
        if n == 'EXP': return t * deriv(ch[0], v, cache)
        if n == 'LOG': return deriv(ch[0], v, cache) / ch[0]
    raise NotImplementedError(t.decl())

def positivity(ts):
    seen = {}
    def walk(t):
        if t.get_id() in seen: return
        seen[t.get_id()] = t
        for c in t.children(): walk(c)
    for t in ts: walk(t)
    return [t > 0 for t in seen.values() if z3.is_app(t) and t.decl().name() == 'EXP']

xv = x.t
cache = {}
# d ln gamma / dx = (dgamma/dx)/gamma
gd = xv * deriv(g1.t, xv, cache) / g1.t + (1 - xv) * deriv(g2.t, xv, cache) / g2.t
s = z3.Solver()
s.add(xv > 0, xv < 1, T.t > 273, T.t < 400)
s.add(positivity([gd]))
s.add(gd != 0)
t0 = time.time(); print("NRTL G-D:", s.check(), time.time() - t0)

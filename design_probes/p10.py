import sys, time, z3
sys.path.insert(0, '/verif/design_probes')
from symx import *
from symx import UF, assume
import symx
import pyvaporation as pv
import pyvaporation.mixtures.mixture as mm
import pyvaporation.pervaporation.pervaporation as pp
from pyvaporation.pervaporation.pervaporation import Pervaporation
K = int(sys.argv[1]); mode = sys.argv[2]
RS = z3.RealSort()
G1 = z3.Function('GAMMA1', RS, RS, RS); G2 = z3.Function('GAMMA2', RS, RS, RS)
PS = [z3.Function('PSAT1', RS, RS), z3.Function('PSAT2', RS, RS)]
def stub_gamma(temperature, mixture, composition, calculation_type="NRTL"):
    if composition.type == 'weight': composition = composition.to_molar(mixture)
    g1 = UF('GAMMA1', lift(temperature), lift(composition.p)); g2 = UF('GAMMA2', lift(temperature), lift(composition.p))
    if Ctx.cur: assume(g1 > 0); assume(g2 > 0)
    return S(g1), S(g2)
mm.calculate_activity_coefficients = stub_gamma
c1 = pv.Component(name='1', molecular_weight=1, vapour_pressure_constants=pv.VaporPressureConstants(a=1,b=1,c=1), heat_capacity_constants=pv.HeatCapacityConstants(a=1,b=1,c=1,d=1))
c2 = pv.Component(name='2', molecular_weight=1, vapour_pressure_constants=pv.VaporPressureConstants(a=1,b=1,c=1), heat_capacity_constants=pv.HeatCapacityConstants(a=1,b=1,c=1,d=1))
c1.molecular_weight = real('M1'); c2.molecular_weight = real('M2')
def _psat(self, t):
    v = UF('PSAT%d' % (1 if self is c1 else 2), lift(t))
    if Ctx.cur: assume(v > 0)
    return S(v)
type(c1).get_vapor_pressure = _psat
mix = pv.Mixture(name='m', first_component=c1, second_component=c2, nrtl_params=pv.NRTLParameters(1,1,1))
def comp(p, typ):
    c = pv.Composition.__new__(pv.Composition); c.p = p; c.type = typ; return c
def perm(v):
    p = pv.Permeance.__new__(pv.Permeance); p.value = v; p.units = pv.Units.kg_m2_h_kPa; return p
T, x, prec, P1, P2 = real('T'), real('x'), real('prec'), real('P1'), real('P2')
Tp = real('Tp') if mode == 'ptemp' else None; Pp = real('Pp') if mode == 'ppres' else None
import attr
def _assume_range(inst, attribute, value):
    if isinstance(value, S): assume(z3.And(value.t >= 0, value.t <= 1))
    elif not 0 <= value <= 1: raise ValueError
for a in attr.fields(pv.Composition):
    if a.name == 'p': object.__setattr__(a, 'validator', _assume_range)
pv.Composition.__init__ = None
def _cinit(self, p, type):
    self.p = p; self.type = type; _assume_range(self, None, p)
pv.Composition.__init__ = _cinit
pz = Pervaporation.__new__(Pervaporation); pz.membrane = None; pz.mixture = mix
# loop bound: cut paths after K iterations
orig = Pervaporation.get_partial_fluxes_from_permeate_composition
cnt = [0]
class Cut(BaseException): pass
def counted(self, *a, **k):
    cnt[0] += 1
    if cnt[0] > K + 1: raise Cut()
    return orig(self, *a, **k)
Pervaporation.get_partial_fluxes_from_permeate_composition = counted
assumptions = [T.t > 273, T.t < 400, x.t > 0, x.t < 1, prec.t > 0, prec.t <= 1, P1.t > 0, P2.t > 0, real('M1').t > 0, real('M2').t > 0]
if Tp is not None: assumptions += [Tp.t > 120, Tp.t <= T.t]
if Pp is not None: assumptions += [Pp.t >= 0, Pp.t <= 100]
def run():
    cnt[0] = 0
    return pz.calculate_partial_fluxes(T, comp(x, 'weight'), prec, Tp, Pp, perm(P1), perm(P2), "NRTL")
# reference model
def xmol(w): return (w / lift(c1.molecular_weight)) / (w / lift(c1.molecular_weight) + (1 - w) / lift(c2.molecular_weight))
def ppress(Tt, w):
    xm = xmol(w); return UF('PSAT1', Tt) * UF('GAMMA1', Tt, xm) * xm, UF('PSAT2', Tt) * UF('GAMMA2', Tt, xm) * (1 - xm)
pf = ppress(T.t, x.t)
def F(y):
    if mode == 'vac': q = (0, 0)
    elif mode == 'ptemp': q = ppress(Tp.t, y)
    else: q = (Pp.t * y, Pp.t * (1 - y))
    return P1.t * (pf[0] - q[0]), P2.t * (pf[1] - q[1])
t0 = time.time(); st = dict(paths=0, ok=0, cut=0, raised=0, proved=0, other=0); nq = 0
for ctx, (kind, out) in explore(run, assumptions):
    st['paths'] += 1; nq += ctx.nq
    if kind == "raise":
        st["raised"] += 1
        if st["raised"] < 3:
            import traceback; traceback.print_exception(out)
        continue
    if kind == 'abort': st['other'] += 1; continue
    st['ok'] += 1
    n = cnt[0] - 1   # loop iterations executed on this path
    ys = [P1.t * pf[0] / (P1.t * pf[0] + P2.t * pf[1])]
    for i in range(n):
        j = F(ys[-1]); ys.append(j[0] / (j[0] + j[1]))
    ref = F(ys[-1])
    s = z3.Solver(); s.add(*assumptions); s.add(*ctx.pc)
    for h in ctx.hazards: s.add(h != 0)
    s.add(z3.Or(out[0].t != ref[0], out[1].t != ref[1]))
    r = s.check(); nq += 1
    if r == z3.unsat: st['proved'] += 1
    else: print("path", st['paths'], "iters", n, r)
print("K=%d mode=%s %s queries=%d wall=%.1fs" % (K, mode, st, nq, time.time() - t0))

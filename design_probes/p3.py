import z3, time, sys
exec(open('/verif/design_probes/p1.py').read().split("def deriv")[0])
ZERO = z3.RealVal(0); ONE = z3.RealVal(1)
def is0(t): return z3.is_rational_value(t) and t.numerator_as_long() == 0
def is1(t): return z3.is_rational_value(t) and t.numerator_as_long() == 1 and t.denominator_as_long() == 1
def mul(a, b):
    if is0(a) or is0(b): return ZERO
    if is1(a): return b
    if is1(b): return a
    return a * b
def add(a, b):
    if is0(a): return b
    if is0(b): return a
    return a + b
def sub(a, b):
    if is0(b): return a
    if is0(a): return -b
    return a - b
def div(a, b):
    if is0(a): return ZERO
    if is1(b): return a
    return a / b
def deriv(t, v, cache):
    k = t.get_id()
    if k not in cache: cache[k] = _deriv(t, v, cache)
    return cache[k]
def _deriv(t, v, cache):
    if z3.is_rational_value(t): return ZERO
    if z3.is_const(t): return ONE if t.eq(v) else ZERO
    k = t.decl().kind(); ch = t.children()
    if k == z3.Z3_OP_ADD:
        r = ZERO
        for c in ch: r = add(r, deriv(c, v, cache))
        return r
    if k == z3.Z3_OP_SUB:
        r = deriv(ch[0], v, cache)
        for c in ch[1:]: r = sub(r, deriv(c, v, cache))
        return r
    if k == z3.Z3_OP_UMINUS:
        d = deriv(ch[0], v, cache); return ZERO if is0(d) else -d
    if k == z3.Z3_OP_MUL:
        r = ZERO
        for i, c in enumerate(ch):
            term = deriv(c, v, cache)
            for j, o in enumerate(ch):
                if j != i: term = mul(term, o)
            r = add(r, term)
        return r
    if k == z3.Z3_OP_DIV:
        a, b = ch
        da, db = deriv(a, v, cache), deriv(b, v, cache)
        if is0(db): return div(da, b)
        return div(sub(mul(da, b), mul(a, db)), mul(b, b))
    if k == z3.Z3_OP_UNINTERPRETED:
        n = t.decl().name()
        if n == 'EXP': return mul(t, deriv(ch[0], v, cache))
        if n == 'LOG': return div(deriv(ch[0], v, cache), ch[0])
    raise NotImplementedError(t.decl())
def ln(t):
    if z3.is_app(t) and t.decl().name() == 'EXP': return t.arg(0)
    return LOG(t)
def free_of(t, v, memo):
    k = t.get_id()
    if k not in memo: memo[k] = (not t.eq(v)) and all(free_of(c, v, memo) for c in t.children())
    return memo[k]
def generalise(t, v, table, memo, fmemo):
    k = t.get_id()
    if k in memo: return memo[k]
    if z3.is_rational_value(t) or z3.is_const(t): r = t
    elif free_of(t, v, fmemo) and (t.decl().kind() in (z3.Z3_OP_UNINTERPRETED, z3.Z3_OP_DIV)):
        ts = z3.simplify(t)
        if z3.is_rational_value(ts): r = ts
        else:
            key = ts.get_id()
            if key not in table: table[key] = (z3.Real('k!%d' % len(table)), ts)
            r = table[key][0]
    else: r = t.decl()(*[generalise(c, v, table, memo, fmemo) for c in t.children()])
    memo[k] = r; return r
def fpow(t, n):
    r = ONE
    for _ in range(n): r = mul(r, t)
    return r
def dterm(d, FT):
    r = ONE
    for k, n in d.items(): r = mul(r, fpow(FT[k], n))
    return r
def frac(t, memo, FT):
    """returns (num term, den multiset {factor_id: power})"""
    k = t.get_id()
    if k in memo: return memo[k]
    kind = t.decl().kind(); ch = t.children()
    if not ch: r = (t, {})
    elif kind in (z3.Z3_OP_ADD, z3.Z3_OP_SUB):
        n, d = frac(ch[0], memo, FT)
        for c in ch[1:]:
            n2, d2 = frac(c, memo, FT)
            if kind == z3.Z3_OP_SUB: n2 = -n2
            l = dict(d)
            for f, p in d2.items(): l[f] = max(l.get(f, 0), p)
            m1 = {f: l[f] - d.get(f, 0) for f in l if l[f] - d.get(f, 0) > 0}
            m2 = {f: l[f] - d2.get(f, 0) for f in l if l[f] - d2.get(f, 0) > 0}
            n = add(mul(n, dterm(m1, FT)), mul(n2, dterm(m2, FT))); d = l
        r = (n, d)
    elif kind == z3.Z3_OP_UMINUS:
        n, d = frac(ch[0], memo, FT); r = (-n, d)
    elif kind == z3.Z3_OP_MUL:
        n, d = ONE, {}
        for c in ch:
            n2, d2 = frac(c, memo, FT); n = mul(n, n2)
            d = dict(d)
            for f, p in d2.items(): d[f] = d.get(f, 0) + p
        r = (n, d)
    elif kind == z3.Z3_OP_DIV:
        n1, d1 = frac(ch[0], memo, FT); n2, d2 = frac(ch[1], memo, FT)
        # (n1/d1)/(n2/d2) = n1*d2/(d1*n2) ; n2 becomes a new atomic factor
        n2s = z3.simplify(n2)
        FT[n2s.get_id()] = n2s
        d = dict(d1); d[n2s.get_id()] = d.get(n2s.get_id(), 0) + 1
        r = (mul(n1, dterm(d2, FT)), d)
    else: r = (t, {})
    memo[k] = r; return r
def dens(t, acc, seen):
    if t.get_id() in seen: return
    seen.add(t.get_id())
    if z3.is_app(t) and t.decl().kind() == z3.Z3_OP_DIV: acc.append(t.arg(1))
    for c in t.children(): dens(c, acc, seen)

def check_gd(g1, g2, xv, label):
    T0 = time.time(); cache = {}
    gd = xv * deriv(ln(g1), xv, cache) + (1 - xv) * deriv(ln(g2), xv, cache)
    table = {}
    gdg = generalise(gd, xv, table, {}, {})
    print(label, "generalised consts:", len(table))
    for c,t in table.values(): print("   ", c, ":=", str(z3.simplify(t)).replace("\n"," ")[:150])
    dd = []; dens(gdg, dd, set())
    FT = {}; n, d = frac(gdg, {}, FT); print('den factors', len(FT), sum(d.values()))
    print('frac done', time.time()-T0)
    s = z3.Solver()
    s.add(xv > 0, xv < 1)
    for (c, t) in table.values():
        if z3.is_app(t) and t.decl().name() == 'EXP': s.add(c > 0)
    for q in dd: s.add(q != 0)
    s.add(n != 0)
    open('/verif/design_probes/q_%s.smt2' % label.split('(')[0], 'w').write('(set-logic QF_NRA)\n' + s.to_smt2())
    t0 = time.time(); r = s.check(); print(label, "G-D:", r, "%.2fs" % (time.time() - t0))
    if r == z3.sat: print(s.model())
if __name__ == "__main__":
    check_gd(g1.t, g2.t, x.t, "NRTL")

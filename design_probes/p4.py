import z3, time, sys, types, inspect
sys.argv = ['x']
src = open('/verif/design_probes/p3.py').read().replace('if __name__ == "__main__":', 'if False:')
exec(src)
S.__eq__ = lambda a, b: False
S.__hash__ = lambda a: 0
import pyvaporation.mixtures.mixture as mm
def mk_uniquac_mix():
    U = pv.UNIQUACConstants
    c1 = pv.Component(name='A', molecular_weight=1, vapour_pressure_constants=pv.Components.H2O.vapour_pressure_constants, heat_capacity_constants=pv.Components.H2O.heat_capacity_constants,
                      uniquac_constants=U(r=R('r1'), q_geometric=R('q1'), q_interaction=R('qi1')))
    c2 = pv.Component(name='B', molecular_weight=1, vapour_pressure_constants=pv.Components.H2O.vapour_pressure_constants, heat_capacity_constants=pv.Components.H2O.heat_capacity_constants,
                      uniquac_constants=U(r=R('r2'), q_geometric=R('q2'), q_interaction=R('qi2')))
    return pv.Mixture(name='m', first_component=c1, second_component=c2,
                      uniquac_params=pv.UNIQUACParameters(alpha_12=R('ua12'), alpha_21=R('ua21'), beta_12=R('ub12'), beta_21=R('ub21'), z=R('z')))
mixu = mk_uniquac_mix()
if len(sys.argv) > 1 or True:
    import fractions
    b = pv.Mixtures.H2O_EtOH
    for cs, cb in ((mixu.first_component, b.first_component), (mixu.second_component, b.second_component)):
        K = lambda v: S(z3.RealVal(repr(v))); cs.uniquac_constants.r = K(cb.uniquac_constants.r); cs.uniquac_constants.q_geometric = K(cb.uniquac_constants.q_geometric); cs.uniquac_constants.q_interaction = K(cb.uniquac_constants.q_interaction)
    mixu.uniquac_params.z = K(b.uniquac_params.z)

t0 = time.time()
u1, u2 = calculate_activity_coefficients(T, mixu, comp, "UNIQUAC")
print("exec", time.time() - t0)
check_gd(u1.t, u2.t, x.t, "UNIQUAC(current)")
# patched source: fix the gamma_2 bracket
srcm = inspect.getsource(mm)
bad = """            * (tau_12 / (theta_2_interaction + theta_1_interaction * tau_21)
               - tau_12 / (theta_1_interaction + theta_2_interaction * tau_12))"""
good = """            * (tau_12 / (theta_2_interaction + theta_1_interaction * tau_12)
               - tau_21 / (theta_1_interaction + theta_2_interaction * tau_21))"""
assert bad in srcm
m2 = types.ModuleType('pyvaporation.mixtures.mixture_fixed'); m2.__package__ = 'pyvaporation.mixtures'
exec(compile(srcm.replace(bad, good), 'fixed', 'exec'), m2.__dict__)
comp2 = m2.Composition.__new__(m2.Composition); comp2.p = x; comp2.type = 'molar'
f1, f2 = m2.calculate_activity_coefficients(T, mixu, comp2, "UNIQUAC")
check_gd(f1.t, f2.t, x.t, "UNIQUAC(fixed)")

"""prototype lifted-execution engine (probe only)"""
import z3, numpy, time, itertools
EXP = z3.Function('EXP', z3.RealSort(), z3.RealSort())
LOG = z3.Function('LOG', z3.RealSort(), z3.RealSort())
class Abort(BaseException): pass
class Ctx:
    cur = None
    def __init__(s, assumptions=(), timeout_ms=1000):
        s.solver = z3.Solver(); s.solver.set('timeout', timeout_ms)
        s.solver.add(*assumptions); s.base = list(assumptions)
        s.decisions = []; s.pos = 0; s.pc = []; s.hazards = []; s.nq = 0; s.fresh = itertools.count()
    def branch(s, cond):
        cond = z3.simplify(cond)
        if z3.is_true(cond): return True
        if z3.is_false(cond): return False
        if s.pos < len(s.decisions):
            v = s.decisions[s.pos][0]
        else:
            s.nq += 2
            ft = s.solver.check(cond) != z3.unsat
            ff = s.solver.check(z3.Not(cond)) != z3.unsat
            if ft and ff: s.decisions.append([True, True]); v = True     # [value, has_alternative]
            elif ft: s.decisions.append([True, False]); v = True
            elif ff: s.decisions.append([False, False]); v = False
            else: raise Abort("infeasible path")
        s.pos += 1
        c = cond if v else z3.Not(cond)
        s.pc.append(c); s.solver.add(c)
        return v
def explore(fn, assumptions=(), max_paths=10000):
    """run fn() under all feasible decision sequences; yields (ctx, result_or_exc)"""
    decisions = []
    n = 0
    while True:
        ctx = Ctx(assumptions); ctx.decisions = decisions; Ctx.cur = ctx
        try: out = ('ok', fn())
        except Abort as a: out = ('abort', a)
        except Exception as e: out = ('raise', e)
        except BaseException as e: out = ('abort', e)
        Ctx.cur = None
        yield ctx, out
        n += 1
        decisions = ctx.decisions[:ctx.pos]
        while decisions and not (decisions[-1][1] and decisions[-1][0] is True): decisions.pop()
        if not decisions or n >= max_paths: return
        decisions[-1] = [False, False]
def lift(v):
    if isinstance(v, S): return v.t
    if isinstance(v, bool): raise TypeError
    if isinstance(v, (int, numpy.integer)): return z3.RealVal(int(v))
    if isinstance(v, (float, numpy.floating)): return z3.RealVal(repr(float(v)))
    raise TypeError(type(v))
class B:
    def __init__(s, t): s.t = t
    def __bool__(s): return Ctx.cur.branch(s.t)
class S:
    __array_priority__ = 1000
    def __init__(s, t): s.t = t
    def __add__(a, b): return S(a.t + lift(b))
    def __radd__(a, b): return S(lift(b) + a.t)
    def __sub__(a, b): return S(a.t - lift(b))
    def __rsub__(a, b): return S(lift(b) - a.t)
    def __mul__(a, b): return S(a.t * lift(b))
    def __rmul__(a, b): return S(lift(b) * a.t)
    def __truediv__(a, b):
        Ctx.cur.hazards.append(lift(b)); return S(a.t / lift(b))
    def __rtruediv__(a, b):
        Ctx.cur.hazards.append(a.t); return S(lift(b) / a.t)
    def __neg__(a): return S(-a.t)
    def __abs__(a): return S(z3.If(a.t >= 0, a.t, -a.t))
    def __pow__(a, n):
        if isinstance(n, (int, numpy.integer)) and n >= 0:
            r = z3.RealVal(1)
            for _ in range(int(n)): r = r * a.t
            return S(r)
        raise NotImplementedError("pow %r" % (n,))
    def __rpow__(a, base): return S(EXP(a.t * LOG(lift(base))))
    def exp(a): return S(EXP(a.t))
    def log(a): return S(LOG(a.t))
    def __lt__(a, b): return B(a.t < lift(b))
    def __le__(a, b): return B(a.t <= lift(b))
    def __gt__(a, b): return B(a.t > lift(b))
    def __ge__(a, b): return B(a.t >= lift(b))
    def __eq__(a, b):
        try: return B(a.t == lift(b))
        except TypeError: return False
    def __ne__(a, b):
        try: return B(a.t != lift(b))
        except TypeError: return True
    def __hash__(a): return 0
    def __repr__(s): return "S(%s)" % str(s.t)[:60]
def real(n): return S(z3.Real(n))

def assume(cond):
    c = Ctx.cur; c.pc.append(cond); c.solver.add(cond)
_uf_tab = {}
def UF(name, *args):
    """purified uninterpreted function: fresh real per syntactically distinct (simplified) argument tuple"""
    key = (name,) + tuple(z3.simplify(a).get_id() for a in args)
    if key not in _uf_tab: _uf_tab[key] = (z3.Real('%s!%d' % (name, len(_uf_tab))), [z3.simplify(a) for a in args])
    return _uf_tab[key][0]
import math as _math
def _cmp(op):
    def f(a, b):
        if isinstance(b, (float, numpy.floating)) and _math.isinf(b):
            big = b > 0
            return {'lt': big, 'le': big, 'gt': not big, 'ge': not big}[op]
        return B({'lt': a.t < lift(b), 'le': a.t <= lift(b), 'gt': a.t > lift(b), 'ge': a.t >= lift(b)}[op])
    return f
S.__lt__, S.__le__, S.__gt__, S.__ge__ = _cmp('lt'), _cmp('le'), _cmp('gt'), _cmp('ge')

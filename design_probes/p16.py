"""C10 ranking probe: extract the while loop of calculate_partial_fluxes from source, run ONE iteration from a havocked head."""
import sys, ast, inspect, textwrap, types, z3, time
sys.path.insert(0, '/verif/design_probes')
import symx
from symx import S, B, real, explore, Ctx, lift, assume
import pyvaporation as pv
import pyvaporation.pervaporation.pervaporation as pp
class SI:                       # minimal symbolic int
    def __init__(s, t): s.t = t
    def __add__(a, b): return SI(a.t + (b.t if isinstance(b, SI) else int(b)))
    __radd__ = __add__
    def __gt__(a, b): return B(a.t > (b.t if isinstance(b, SI) else int(b)))
    def __ge__(a, b): return B(a.t >= (b.t if isinstance(b, SI) else int(b)))
    def __lt__(a, b): return B(a.t < (b.t if isinstance(b, SI) else int(b)))
    def __le__(a, b): return B(a.t <= (b.t if isinstance(b, SI) else int(b)))
def variant(fixed):
    src = inspect.getsource(pp)
    if fixed:
        old = "        d = 1\n        while d >= precision:\n            try:"
        assert old in src
        src = src.replace(old, "        d = 1\n        iterations = 0\n        while d >= precision:\n            iterations += 1\n            if iterations > 10000:\n                raise ValueError('not defined')\n            try:")
    return src
def extract(src):
    tree = ast.parse(src)
    fn = next(n for c in tree.body if isinstance(c, ast.ClassDef) and c.name == 'Pervaporation' for n in c.body if isinstance(n, ast.FunctionDef) and n.name == 'calculate_partial_fluxes')
    loop = next(n for n in ast.walk(fn) if isinstance(n, ast.While))
    carried = sorted({n.id for b in loop.body for n in ast.walk(b) if isinstance(n, ast.Name) and isinstance(n.ctx, ast.Store)} |
                     {n.target.id for b in loop.body for n in ast.walk(b) if isinstance(n, ast.AugAssign) and isinstance(n.target, ast.Name)})
    params = [a.arg for a in fn.args.args]
    class RT(ast.NodeTransformer):
        def visit_Return(self, node): return ast.copy_location(ast.Return(value=ast.Tuple(elts=[ast.Constant('return'), node.value or ast.Constant(None)], ctx=ast.Load())), node)
    body = [RT().visit(b) for b in loop.body]
    ret = ast.Return(value=ast.Tuple(elts=[ast.Constant('continue'), ast.Dict(keys=[ast.Constant(c) for c in carried], values=[ast.Name(c, ast.Load()) for c in carried])], ctx=ast.Load()))
    f = ast.FunctionDef(name='__one_iteration', args=ast.arguments(posonlyargs=[], args=[ast.arg(a) for a in params + [c for c in carried if c not in params]], kwonlyargs=[], kw_defaults=[], defaults=[]),
                        body=[ast.Assert(test=loop.test, msg=None)] + body + [ret], decorator_list=[], type_params=[])
    mod = ast.Module(body=[f], type_ignores=[]); ast.fix_missing_locations(mod)
    return mod, params, carried, ast.unparse(loop.test)
for fixed in (False, True):
    src = variant(fixed)
    m = types.ModuleType('pv_variant'); m.__package__ = 'pyvaporation.pervaporation'; exec(compile(src, 'variant', 'exec'), m.__dict__)
    mod, params, carried, test = extract(src)
    exec(compile(mod, 'loop', 'exec'), m.__dict__)
    one = m.__dict__['__one_iteration']
    print("fixed=%s loop test: %s ; carried: %s" % (fixed, test, carried))
    # havocked head state
    def comp(p):
        c = pv.Composition.__new__(pv.Composition); c.p = p; c.type = 'weight'; return c
    calls = [0]
    class Stub:
        mixture = None; membrane = None
        def get_partial_fluxes_from_permeate_composition(self, **kw):
            calls[0] += 1; return (real('J1_%d' % calls[0]), real('J2_%d' % calls[0]))
    def _assume_range(self, p, type): self.p = p; self.type = type; assume(z3.And(lift(p) >= 0, lift(p) <= 1))
    m.Composition.__init__ = _assume_range
    head = dict(d=real('d'), permeate_composition=comp(real('y')), permeate_composition_new=comp(real('ynew')), iterations=SI(z3.Int('it')))
    prec = real('prec')
    def run():
        calls[0] = 0
        kw = dict(self=Stub(), feed_temperature=real('T'), composition=comp(real('x')), precision=prec, permeate_temperature=None, permeate_pressure=real('pp'),
                  first_component_permeance=None, second_component_permeance=None, calculation_type='NRTL')
        for c in carried: kw[c] = head[c]
        # loop test as assumption (Assert inside function would fork); evaluate it first
        return one(**kw)
    ints = [c for c in carried if isinstance(head[c], SI)]
    leaves = []
    for ctx, (kind, out) in explore(run, [prec.t > 0]):
        leaves.append((kind, out, list(ctx.pc)))
    cont = [(o, pc) for k, o, pc in leaves if k == 'ok' and o[0] == 'continue']
    print("  leaves:", [(k, (o[0] if k == 'ok' else type(o).__name__)) for k, o, pc in leaves])
    proved = False
    for v in ints:
        ok = True; bound = None
        for (status, st), pc in cont:
            s = z3.Solver(); s.add(*pc); s.add(st[v].t < head[v].t + 1)
            if s.check() != z3.unsat: ok = False
            o = z3.Optimize(); o.add(*pc); h = o.maximize(head[v].t); o.check(); ub = o.upper(h)
            if not z3.is_int_value(ub): ok = False
            else: bound = max(bound or 0, ub.as_long())
        if ok and cont: proved = True; print("  ranking variable %r: +1 on every continuing leaf, head value <= %s on every continuing leaf  => loop bounded" % (v, bound))
    if not proved: print("  no ranking variable found (carried ints: %s) => termination NOT proved" % ints)

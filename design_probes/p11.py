import numpy, z3
class S:
    def __init__(s, t): s.t = t
    def exp(a): return S(z3.Real('EXP_' + str(a.t)))
    def __radd__(a, b): return S(a.t + b)
    def __add__(a, b): return S(a.t + (b.t if isinstance(b, S) else b))
    def __mul__(a, b): return S(a.t * (b.t if isinstance(b, S) else z3.RealVal(repr(float(b)))))
    __rmul__ = __mul__
    def __neg__(a): return S(-a.t)
    def __repr__(s): return "S(%s)" % s.t
x = S(z3.Real('x'))
print(numpy.exp(x), numpy.float64(2.5) * x, numpy.log(10) * x, x * numpy.float64(3))
arr = numpy.array([x, x]); print(arr.dtype, -arr, numpy.multiply(-arr, x), numpy.multiply(-arr, [x, x]), numpy.exp(numpy.multiply(-arr, x)))
print(numpy.multiply((x, x), (x, x)), numpy.sum((x, x)), sum(numpy.multiply((x,x),(x,x))))

import sys, time, z3
sys.path.insert(0, '/verif/design_probes')
from symx import *
import pyvaporation as pv
from pyvaporation.pervaporation.pervaporation import Pervaporation
N = int(sys.argv[1]) if len(sys.argv) > 1 else 2
mode = sys.argv[2] if len(sys.argv) > 2 else 'vac'
def sym_component(tag):
    c = pv.Component(name=tag, molecular_weight=1, vapour_pressure_constants=pv.VaporPressureConstants(a=1, b=1, c=1), heat_capacity_constants=pv.HeatCapacityConstants(a=1, b=1, c=1, d=1))
    c.molecular_weight = real('M' + tag)
    for k in 'abc': setattr(c.vapour_pressure_constants, k, real('vp%s_%s' % (k, tag)))
    for k in 'abcd': setattr(c.heat_capacity_constants, k, real('cp%s_%s' % (k, tag)))
    return c
c1, c2 = sym_component('1'), sym_component('2')
mix = pv.Mixture(name='m', first_component=c1, second_component=c2, nrtl_params=pv.NRTLParameters(g12=real('g12'), g21=real('g21'), alpha12=real('al')))
PERM = [z3.Function('PERM1', z3.RealSort(), z3.RealSort()), z3.Function('PERM2', z3.RealSort(), z3.RealSort())]
class StubMembrane:
    name = 'stub'; path = None
    def get_permeance(self, temperature, component, initial_permeance=None):
        i = 0 if component is c1 else 1
        p = pv.Permeance.__new__(pv.Permeance); p.value = S(PERM[i](lift(temperature))); p.units = pv.Units.kg_m2_h_kPa
        return p
calls = []
class P(Pervaporation):
    def calculate_partial_fluxes(self, **kw):
        k = len(calls)
        j = (real('J1_%d' % k), real('J2_%d' % k)); calls.append((kw, j)); return j
pvz = Pervaporation.__new__(P); pvz.membrane = StubMembrane(); pvz.mixture = mix
def comp(p, typ):
    c = pv.Composition.__new__(pv.Composition); c.p = p; c.type = typ; return c
A, T0, m0, x0, dt = real('A'), real('T0'), real('m0'), real('x0'), real('dt')
Tp = real('Tp') if mode == 'ptemp' else None
Pp = real('Pp') if mode == 'ppres' else None
cond = pv.Conditions(membrane_area=A, initial_feed_temperature=T0, initial_feed_amount=m0, initial_feed_composition=comp(x0, 'weight'), permeate_temperature=Tp, permeate_pressure=Pp)
assume = [A.t > 0, T0.t > 273, T0.t < 400, m0.t > 0, x0.t > 0, x0.t < 1, dt.t > 0]
def run():
    calls.clear()
    return pvz.ideal_non_isothermal_process(conditions=cond, number_of_steps=N, delta_hours=dt)
t0 = time.time(); npaths = 0; nok = 0; nq = 0; unsat = 0
for ctx, (kind, out) in explore(run, assume):
    npaths += 1; nq += ctx.nq
    if kind != 'ok':
        continue
    nok += 1
    m = out
    s = z3.Solver(); s.add(*assume); s.add(*ctx.pc)
    for h in ctx.hazards: s.add(h != 0)
    viol = []
    for k in range(N):
        J1, J2 = calls[k][1]
        viol.append(m.partial_fluxes[k][0].t != J1.t)
        if k + 1 < N:
            viol.append(m.feed_mass[k+1].t != m.feed_mass[k].t - (J1.t + J2.t) * A.t * dt.t)
            viol.append(m.feed_mass[k+1].t * m.feed_compositions[k+1].p.t != m.feed_mass[k].t * m.feed_compositions[k].p.t - J1.t * A.t * dt.t)
        viol.append(m.time[k].t != k * dt.t if isinstance(m.time[k], S) else z3.BoolVal(m.time[k] != 0))
    s.add(z3.Or(*viol))
    r = s.check(); nq += 1
    if r == z3.unsat: unsat += 1
    else: print("path", npaths, r)
print("N=%d mode=%s paths=%d ok=%d proved=%d queries=%d wall=%.1fs" % (N, mode, npaths, nok, unsat, nq, time.time() - t0))

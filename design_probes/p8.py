import z3, pyvaporation as pv
from fractions import Fraction
mix = pv.Mixtures.H2O_EtOH
T, x = 333.15, 0.9
comp = pv.Composition(p=x, type='weight')
a_f, b_f = pv.get_partial_pressures(T, mix, comp)
print("feed partial pressures", a_f, b_f)
P1, P2, p, prec = z3.Reals('P1 P2 p prec')
a = z3.RealVal(Fraction(float(a_f)).limit_denominator(10**12)); b = z3.RealVal(Fraction(float(b_f)).limit_denominator(10**12))
def G(y):
    j1 = P1 * (a - p * y); j2 = P2 * (b - p * (1 - y)); return j1 / (j1 + j2), j1, j2
y0 = P1 * a / (P1 * a + P2 * b); y1, j1a, j2a = G(y0); y2, j1b, j2b = G(y1)
s = z3.Solver()
s.add(P1 >= z3.RealVal('1e-6'), P1 <= 1, P2 >= z3.RealVal('1e-6'), P2 <= 1, p >= 0, p <= 100, prec >= z3.RealVal('1e-8'), prec <= z3.RealVal('1e-3'))
s.add(j1a + j2a != 0, j1b + j2b != 0)
for y in (y0, y1, y2): s.add(y >= 0, y <= 1)
s.add(j1a > 0, j2a > 0, j1b > 0, j2b > 0)
s.add(y2 == y0, z3.If(y1 - y0 >= 0, y1 - y0, y0 - y1) >= prec)
print(s.check()); m = s.model()
val = lambda v: float(m.eval(v, model_completion=True).as_fraction())
P1v, P2v, pv_, precv = map(val, (P1, P2, p, prec)); print(P1v, P2v, pv_, precv)
count = [0]
orig = pv.Pervaporation.get_partial_fluxes_from_permeate_composition
class Stop(Exception): pass
def counted(self, *a, **k):
    count[0] += 1
    if count[0] > 20000: raise Stop()
    return orig(self, *a, **k)
pv.Pervaporation.get_partial_fluxes_from_permeate_composition = counted
pz = pv.Pervaporation(membrane=None, mixture=mix)
try:
    print(pz.calculate_partial_fluxes(T, comp, precv, None, pv_, pv.Permeance(P1v), pv.Permeance(P2v)))
except Stop:
    print("did NOT terminate within 20000 driving-force evaluations")

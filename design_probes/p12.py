import sys, tempfile, shutil, pandas, numpy, z3, re
sys.path.insert(0, '/verif/design_probes')
import symx
from symx import S, real
REG = {}
def tok(s):
    k = "@@S%d@@" % s.t.get_id(); REG[k] = s; return k
S.__str__ = tok; S.__repr__ = tok
import pyvaporation as pv
import pyvaporation.diffusion_curve.diffusion_curve as dcm
_read = pandas.read_csv
def read_csv(path, *a, **k):
    df = _read(path, *a, **k)
    for c in df.columns:
        if df[c].dtype == object or str(df[c].dtype).startswith('str'):
            col = df[c].astype(object)
            df[c] = pandas.Series([REG.get(v, v) if isinstance(v, str) else v for v in col], dtype=object, index=df.index)
    return df
class PandasProxy:
    def __getattr__(self, n): return getattr(pandas, n)
    read_csv = staticmethod(read_csv)
dcm.pandas = PandasProxy()
mix = pv.Mixtures.H2O_EtOH
def comp(p, typ):
    c = pv.Composition.__new__(pv.Composition); c.p = p; c.type = typ; return c
def perm(v, u='kg/(m2*h*kPa)'):
    p = pv.Permeance.__new__(pv.Permeance); p.value = v; p.units = u; return p
dc = pv.DiffusionCurve.__new__(pv.DiffusionCurve)
dc.mixture = mix; dc.membrane_name = 'm'; dc.feed_temperature = real('T'); dc.feed_compositions = [comp(real('x0'), 'weight'), comp(real('x1'), 'weight')]
dc.partial_fluxes = [(real('j10'), real('j20')), (real('j11'), real('j21'))]; dc.permeate_temperature = None; dc.permeate_pressure = real('pp')
dc.permeances = [(perm(real('p10')), perm(real('p20'))), (perm(real('p11')), perm(real('p21')))]; dc.comments = 'c'
d = tempfile.mkdtemp()
try:
    dc.save(d + '/set.csv'); print(open(d + '/set.csv').read())
    from pathlib import Path
    ctxs = list(symx.explore(lambda: pv.DiffusionCurveSet.load(Path(d + '/set.csv')), [real(n).t > 0 for n in ('p10','p20','p11','p21')] + [real('x0').t > 0, real('x0').t < 1, real('x1').t > 0, real('x1').t < 1]))
    for ctx, (kind, out) in ctxs:
        print(kind, out if kind != 'ok' else '')
        if kind == 'ok':
            l = out.diffusion_curves[0]
            print(l.feed_temperature, l.permeate_pressure, l.permeate_temperature, [c.p for c in l.feed_compositions], l.partial_fluxes, [(a.value, b.value, a.units) for a, b in l.permeances])
finally: shutil.rmtree(d)

import sys, z3, time, math
sys.argv = ['x']
src = open('/verif/design_probes/p3.py').read().replace('if __name__ == "__main__":', 'if False:')
exec(src)
import pyvaporation as pv
from pyvaporation.utils import R as RGAS
LN10 = z3.RealVal(repr(math.log(10)))
def fold_logconst(t):   # identify LOG(10) with its double value
    return z3.substitute(t, (LOG(z3.RealVal(10)), LN10))
for typ in ('antoine', 'frost'):
    c = pv.Component(name='c', molecular_weight=1, vapour_pressure_constants=pv.VaporPressureConstants(a=1, b=1, c=1, type=typ), heat_capacity_constants=pv.HeatCapacityConstants(a=1, b=1, c=1, d=1))
    a, b, cc = R('a'), R('b'), R('c'); c.vapour_pressure_constants.a = a; c.vapour_pressure_constants.b = b; c.vapour_pressure_constants.c = cc
    Tt = R('T')
    P = c.get_vapor_pressure(Tt); H = c.get_vaporisation_heat(Tt)
    lnP = fold_logconst(ln(P.t))
    dl = deriv(lnP, Tt.t, {})
    lhs = 1000 * H.t; rhs = z3.RealVal(repr(RGAS)) * Tt.t * Tt.t * dl
    FT = {}; n, d = frac(z3.simplify(lhs - rhs), {}, FT)
    s = z3.Solver(); s.add(Tt.t > 200, Tt.t < 500)
    for f in FT.values(): s.add(f != 0)
    s.add(n != 0)
    t0 = time.time(); print(typ, "Clausius-Clapeyron:", s.check(), "%.3fs" % (time.time() - t0))
# cooling heat identities
c = pv.Component(name='c', molecular_weight=1, vapour_pressure_constants=pv.VaporPressureConstants(a=1, b=1, c=1), heat_capacity_constants=pv.HeatCapacityConstants(a=1, b=1, c=1, d=1))
for k in 'abcd': setattr(c.heat_capacity_constants, k, R('h' + k))
t0_, t1_, t2_ = R('t0'), R('t1'), R('t2')
C = lambda u, v: c.get_cooling_heat(u, v).t
s = z3.Solver(); s.add(z3.Or(C(t0_, t1_) + C(t1_, t2_) != C(t0_, t2_), C(t0_, t1_) != -C(t1_, t0_), C(t0_, t0_) != 0, deriv(C(t0_, t1_), t0_.t, {}) != c.get_specific_heat(t0_).t))
t0 = time.time(); print("cooling heat identities:", s.check(), "%.3fs" % (time.time() - t0))

import z3, time
P1, P2, a, b, p, prec = z3.Reals('P1 P2 a b p prec')   # a,b feed partial pressures
def G(y):
    j1 = P1 * (a - p * y); j2 = P2 * (b - p * (1 - y))
    return j1 / (j1 + j2), j1, j2
y0 = P1 * a / (P1 * a + P2 * b)
y1, j1a, j2a = G(y0); y2, j1b, j2b = G(y1)
s = z3.Solver(); s.set('timeout', 120000)
s.add(P1 >= z3.RealVal('1e-6'), P1 <= 1, P2 >= z3.RealVal('1e-6'), P2 <= 1, a > 0, b > 0, a < 200, b < 200, p >= 0, p <= 100, prec >= z3.RealVal('1e-8'), prec <= z3.RealVal('1e-3'))
s.add(j1a + j2a != 0, j1b + j2b != 0, P1*a + P2*b != 0)
for y in (y0, y1, y2): s.add(y >= 0, y <= 1)
s.add(y2 == y0, z3.If(y1 - y0 >= 0, y1 - y0, y0 - y1) >= prec)
t0 = time.time(); r = s.check(); print(r, time.time() - t0)
if r == z3.sat:
    m = s.model(); print({str(d): m.eval(d(), model_completion=True).as_decimal(12) for d in m.decls() if d.arity() == 0})
    print("y0,y1,y2 =", [m.eval(y, model_completion=True).as_decimal(10) for y in (y0, y1, y2)])

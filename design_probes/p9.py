import numpy, copy, pyvaporation as pv
from pyvaporation import *
mix = Mixtures.H2O_EtOH
mem = Membrane(name='m', ideal_experiments=IdealExperiments(experiments=[
    IdealExperiment(name='e1', temperature=333.15, component=Components.H2O, permeance=Permeance(0.036), activation_energy=19944),
    IdealExperiment(name='e2', temperature=333.15, component=Components.EtOH, permeance=Permeance(0.0016), activation_energy=70000)]))
pz = Pervaporation(mem, mix)
c = Composition(0.9, 'weight')
# 1 positional slip
print("1 fluxes NRTL", pz.calculate_partial_fluxes(333.15, c, 5e-5, 293.15), "UNIQ", pz.calculate_partial_fluxes(333.15, c, 5e-5, 293.15, calculation_type='UNIQUAC'))
print("1 permeate comp NRTL", pz.calculate_permeate_composition(333.15, c, 5e-5, 293.15).p, "UNIQ(helper)", pz.calculate_permeate_composition(333.15, c, 5e-5, 293.15, None, 'UNIQUAC').p)
f = pz.calculate_partial_fluxes(333.15, c, 5e-5, 293.15, calculation_type='UNIQUAC'); print("   expected UNIQ", f[0]/sum(f))
# 2 heat
cond = Conditions(membrane_area=1, initial_feed_temperature=333.15, initial_feed_amount=10, initial_feed_composition=c)
mi = pz.ideal_isothermal_process(number_of_steps=2, delta_hours=0.1, conditions=cond)
mn = pz.ideal_non_isothermal_process(number_of_steps=2, delta_hours=0.1, conditions=cond)
print("2 evap heat iso", mi.feed_evaporation_heat[0], "noniso", mn.feed_evaporation_heat[0])
# 3 separation factor basis
cm = c.to_molar(mix)
print("3 sep factor weight", pz.calculate_separation_factor(333.15, c), "molar", pz.calculate_separation_factor(333.15, cm))
# 7 negative mass
cond2 = Conditions(membrane_area=100, initial_feed_temperature=333.15, initial_feed_amount=1, initial_feed_composition=Composition(0.5,'weight'))
try:
    m7 = pz.ideal_isothermal_process(number_of_steps=4, delta_hours=1, conditions=cond2)
    print("7 feed mass", m7.feed_mass, [x.p for x in m7.feed_compositions])
except Exception as e: print("7 raised", repr(e))
try:
    m7 = pz.ideal_non_isothermal_process(number_of_steps=4, delta_hours=0.3, conditions=cond2)
    print("7 feed mass", m7.feed_mass, m7.feed_temperature)
except Exception as e: print("7 raised", repr(e))
# 5 inversion in pressure mode
P1, P2 = Permeance(0.03), Permeance(0.002)
for kw in ({}, {'permeate_temperature': 283.15}, {'permeate_pressure': 3.0}):
    fl = pz.calculate_partial_fluxes(333.15, c, 1e-9, first_component_permeance=P1, second_component_permeance=P2, **kw)
    dc = DiffusionCurve(mixture=mix, membrane_name='m', feed_temperature=333.15, feed_compositions=[c], partial_fluxes=[tuple(fl)], **kw)
    print("5", kw, [p.value for p in dc.permeances[0]])
# 6 fit mutation
ms = Measurements(data=[pv.optimizer.optimizer.Measurement(x=x, t=333.15, p=0.01*numpy.exp(x)) for x in (0.1, 0.4, 0.7, 0.9)])
n0 = len(ms.data); fit(ms, n=1, m=0, include_zero=True); print("6 len before/after", n0, len(ms.data))

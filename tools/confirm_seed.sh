#!/bin/bash
# confirm a seeded change produced in a scratch worktree: suite green with it, demo fails with it and passes without
# usage: tools/confirm_seed.sh <worktree> <seed-id>
set -u
WT=$1; ID=$2
cd $WT || exit 9
git diff -- pyvaporation > /tmp/wt/$ID.confirm.patch
[ -s /tmp/wt/$ID.confirm.patch ] || { echo "no diff"; exit 9; }
/venv/bin/python demo.py > /tmp/wt/$ID.demo_with.txt 2>&1; W=$?
git checkout -q -- pyvaporation
/venv/bin/python demo.py > /tmp/wt/$ID.demo_without.txt 2>&1; WO=$?
git apply /tmp/wt/$ID.confirm.patch
T=$(/venv/bin/python -m pytest -q -p no:cacheprovider -n 8 2>&1 | tail -1)
echo "$ID demo_with_exit=$W demo_without_exit=$WO tests: $T"
mkdir -p /verif/seeded/$ID
cp /tmp/wt/$ID.confirm.patch /verif/seeded/$ID/patch.diff
cp demo.py /verif/seeded/$ID/demo.py

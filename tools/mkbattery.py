#!/usr/bin/env python
"""assemble /verif/battery/<id>.json: the real-code questions (replay function + fixed inputs) each check would ask, collected from a
run on the UNCHANGED tree and kept only if they pass there and answer within the time limit.  The driver falls back to this battery when
changed code leaves the reach of the lifted execution (see vf/main.py).  Usage: .venv/bin/python tools/mkbattery.py [C01 C02 ...]"""
import json
import os
import subprocess
import sys
import time

VERIF = os.path.dirname(os.path.dirname(os.path.abspath(__file__)))
sys.path.insert(0, VERIF)
sys.path.insert(0, os.environ.get("VERIF_REPO", "/repo"))
from vf import core  # noqa

ids = sys.argv[1:] or ["C%02d" % i for i in range(1, 21)]
for pid in ids:
    env = dict(os.environ, VERIF_COLLECT_BATTERY="1", VERIF_NO_EVIDENCE="1", VERIF_NO_BATTERY="1")
    subprocess.run([os.path.join(VERIF, "vcheck"), pid, "--tier", "quick"], env=env, cwd=VERIF, stdout=subprocess.DEVNULL, stderr=subprocess.DEVNULL)
    raw = json.load(open(os.path.join(VERIF, "battery", "%s.raw.json" % pid)))
    import importlib
    for spec, inp in getattr(importlib.import_module("vf.props." + pid), "BATTERY_EXTRA", []):
        raw.append([spec, json.dumps(inp, sort_keys=True)])  # questions that are only asked when something already went wrong
    keep = []
    per_fn = {}
    # spread the choice over the whole run (the raw list is in job order: one kind / mode after the other)
    by_fn = {}
    for spec, text in raw:
        by_fn.setdefault(spec, []).append(text)
    spread = []
    for spec, texts in by_fn.items():
        step = max(1, len(texts) // (40 if 'C19' in spec else 10))
        spread += [(spec, t) for t in texts[::step]]
    for spec, text in spread:
        if per_fn.get(spec, 0) >= (40 if 'C19' in spec else 8):
            continue  # a handful of fixed inputs per replay function
        t0 = time.time()
        out = core.run_battery([[spec, text]], timeout=120)
        dt = time.time() - t0
        if out and out[0][2].get("ok", False) and "replay raised" not in str(out[0][2].get("detail", "")) and dt < 60:
            keep.append([spec, text])
            per_fn[spec] = per_fn.get(spec, 0) + 1
    os.remove(os.path.join(VERIF, "battery", "%s.raw.json" % pid))
    json.dump(keep, open(os.path.join(VERIF, "battery", "%s.json" % pid), "w"), indent=0)
    print(pid, "collected", len(raw), "kept", len(keep), dict(per_fn))

#!/bin/bash
# regression over every kept seeded change: each must still apply to /repo's HEAD and be reported by the check(s) recorded in its meta.json ("ran")
cd /verif
python3 - <<'P' > /tmp/wt/seedall.list
import json, os
for s in sorted(os.listdir('seeded')):
    ran = json.load(open('seeded/%s/meta.json' % s))['ran'].split('seedrun.sh')[1].split('(')[0].split()
    print(' '.join(ran))
P
xargs -P ${SEED_JOBS:-3} -L1 tools/seedrun.sh < /tmp/wt/seedall.list 2>&1 | grep "^seed=" | sort

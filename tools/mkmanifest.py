#!/usr/bin/env python
"""regenerates /verif/MANIFEST.json from the table below (kept next to the code so the manifest is
always consistent with the check modules that exist)"""
import json
import os

VERIF = os.path.dirname(os.path.dirname(os.path.abspath(__file__)))

TECH = "symbolic execution of the real Python functions on z3 Real proxies (vf/symx.py); z3 decides path-condition + negated property; sat answers are replayed on the unpatched code"
NOTE = ("claims are over the reals within the bounds stated in the evidence file; trusted: CPython executing the repo code, z3, the proxy "
        "classes and term transformations of /verif/vf (validated each run against the real code on floats), stub contracts listed in the evidence")

CHECKS = {
    "C17": ("5 C17", "real save / load code (pandas, json, joblib, scratch directory) on objects with all-distinct symbolic fields tunnelled as "
                     "unique tokens: ProcessModel from all four generators x 3 modes x {binary, JSON} (N = 2, thorough 3), DiffusionCurve x 3 "
                     "modes x 2 bases x 3 units, PervaporationFunction (binary + JSON), Conditions (JSON): every persisted field, unit / basis "
                     "conversion on load (also for a model held in SI / GPU), None <-> NaN, series lengths (per-step permeate condition included), a second save / load generation of the re-loaded model, a model without initial conditions; save histories with a stubbed clock incl. forced directory-name collisions "
                     "(earlier directories byte-identical)"),
    "C20": ("5 C20", "frame condition: 15 modelling entry points executed on shared symbolic argument objects (real Membrane with symbolic "
                     "experiments, mixture, curve set, conditions, permeances, measurements); deep snapshot (identities, fields, lengths, numpy "
                     "buffers, term ids) of all arguments and of every pyvaporation module's module-level state compared on every leaf; each "
                     "call repeated (equal terms) and X;Y;X histories (quick 5 pairs, thorough all 72)"),
    "C16": ("5 C16", "fit / find_best_fit / objective / PervaporationFunction and fit_vle's selection executed on 3 (thorough 4) symbolic "
                     "measurement points with scipy.optimize.minimize as a deterministic uninterpreted function of the objective it is handed: "
                     "caller data untouched (identity + length + elements) on every coincidence pattern of temperatures, repeated call = same "
                     "answer, full (n, m) grid, returned loss minimal (losses named at the source, linear order query) and equal to the squared "
                     "error on caller data, best-of over 4 (thorough 9) VLE methods, value and scaling formulas up to order 2 (thorough 3)"),
    "C05": ("5 C05", "two non-ideal process models (N = 3, thorough 4) and the non-ideal curve with the best-fit search as a recording stub "
                     "returning symbolic coefficient arrays, 1 and 2 curves, with / without initial permeances (kg, SI, GPU), both initial bases: search called "
                     "once per component on that component's measurements; self-cooling and a temperature programme; returned fits = search results or their Arrhenius re-scaling "
                     "(exp-normal form + EXP congruence); permeances[k] = fit(x_k | x_(k-1), T_k) x step-0 factor"),
    "C06": ("5 C06", "relational: run vs relabelled twin in one exploration.  Activity models for real (NRTL fully symbolic, UNIQUAC per built-in "
                     "mixture; ln gamma compared as rational functions; UNIQUAC asymmetry is a characterised known finding); flux solver with the "
                     "real loop (K = 1, thorough 2; iterates named, on-demand congruence); helpers, one-point curve, metrics and the two ideal "
                     "process models (N = 2, thorough 3) over identity-keyed uninterpreted thermodynamics; separation factor / selectivity invert"),
    "C19": ("5 C19", "12 driving-force entry points executed with both permeate temperature and pressure symbolic and everything else symbolic "
                     "(N = 1 step / point; thorough also 2): every leaf raises a repository exception; 9 incomplete-specification classes "
                     "likewise (activity-model classes also at the pure ends; a CSV with an empty activation-energy cell as labelled concrete points); vacuity twins with valid specifications must return"),
    "C12": ("5 C12", "Membrane.get_permeance / calculate_activation_energy with n = 1..3 (thorough 4) symbolic experiments per component in any "
                     "order and unit, energy stated / stated per experiment / mixed stated-unstated / regressed (lstsq by its normal equations): Arrhenius factor of the "
                     "nearest experiment, measured value at experiment temperatures, regression recovers E on a line, independence of the "
                     "reference experiment; selectivity M2/M1 law; pure-component flux per mode and its rejection of a double specification"),
    "C10": ("5 C10", "ranking argument on the loop extracted from the AST of the current source (one iteration from a havocked head, callee "
                     "arbitrary: a loop-carried integer increases and is bounded on every continuing leaf => bounded for every input, mode and "
                     "model) + solver-found 2-cycles of the permeate-pressure map replayed on the real code under a counting wrapper; every "
                     "other `while` / recursion in the package is reported as unanalysed"),
    "C09": ("5 C09", "driving-force function at a symbolic self-consistent permeate composed with the real DiffusionCurve constructor "
                     "(3 modes x 2 feed bases x {NRTL, UNIQUAC}): reported permeances = the ones used; curve from permeances (alone, or together with fluxes) in kg/SI/GPU, also with different units per point and per component: exposure in kg units, "
                     "fluxes = P x feed pressure, re-inversion; the permeate-pressure basis mismatch is a characterised known finding"),
    "C07": ("5 C07", "relational: each entry point run with Composition(x_of_w(w), molar) and Composition(w, weight) in one exploration "
                     "(flux solver + helpers + one-point curve and metrics with the real loop, K = 1 (thorough 2); four process models N = 2 "
                     "(thorough 3) with step-wise lemma chaining; non-ideal curve; measurement extraction from molar vs mass-fraction curves)"),
    "C08": ("5 C08", "relational: standalone flux calculation vs permeate-composition / separation-factor helpers vs one-point ideal curve on "
                     "one symbolic question (3 modes x 2 models x 2 feed bases, real flux loop K = 1 (thorough 2), gamma-UFs keyed by model); "
                     "the one-point curve reports the membrane's permeances under either model; process level (also under a temperature programme): recorded arguments of every flux call equal the reported state, an ideal model's reported permeances are the membrane's at the step temperature, derived metrics of ProcessModel / DiffusionCurve"),
    "C11": ("5 C11", "relational: each process model run twice in one exploration with (kA, k m0) and (kA, dt/k), N = 3 steps (thorough 2..4), "
                     "callees as uninterpreted functions with Ackermann congruence, per-step state named and equalities chained as lemmas; "
                     "step-0 flux question must not mention A, m0, dt (free-variable check on the recorded argument terms)"),
    "C18": ("5 C18", "process models with the real validator and guards forking, flux function arbitrary, N = 2 (thorough 2,3): on every "
                     "returning leaf no reported state can be inadmissible (feed mass, temperature, fractions); replay with coarse real runs; non-finite floats (overflowing programmes, deep-cooling scans ending in inf / nan) as labelled concrete points"),
    "C01": ("5 C01", "4 process models x 3 permeate modes x {mass, mole} initial basis x programme kinds x curve-set shapes, N = 1,3 steps "
                     "(thorough 1..5) with the flux solver / permeance / heats / best-fit search as arbitrary functions: series lengths, "
                     "time grid, initial state, reported fluxes, total and first-component balance per step; plus concrete real-code runs at step lengths that are not exact in binary (float time grid)"),
    "C03": ("5 C03", "same lifted process runs: evaporation heat = sum of permeated mass x own latent heat per kg, self-cooling update, "
                     "programme value at k dt (3 programme kinds with 5 symbolic coefficients, real TemperatureProgram code), isothermal constancy, condensation heat "
                     "reported iff a permeate temperature is given, series start at the stated temperature, isothermal/non-isothermal twin at step 0 -- fluxes, evaporation and condensation heat, also with a programme on the non-isothermal side (relational, congruence)"),
    "C02": ("5 C02", "flux solver unrolled to K loop iterations (quick 2, thorough 4) for 3 permeate modes x 2 activity models, activity "
                     "coefficients and saturation pressures as uninterpreted functions: law at a self-consistent iterate, vacuum / zero-pressure "
                     "/ fixed-pressure identities, permeance scaling (relational, with congruence)"),
    "C04": ("5 C04", "Gibbs-Duhem as a division-free polynomial non-vanishing query after symbolic differentiation of the executed ln gamma "
                     "(NRTL fully symbolic, 4 parameter shapes; UNIQUAC with exact component constants of the 8 built-in mixtures, their relabelled twins and 2 synthetic q'=q sets), pure limits, "
                     "Raoult, partial-pressure law and basis independence (of the partial pressures and of the activity-coefficient function itself); the UNIQUAC gamma_2 defect is a characterised known finding"),
    "C13": ("5 C13", "unbounded: Clausius-Clapeyron for Antoine and Frost with symbolic constants (symbolic d/dT of the executed ln P), "
                     "cooling-heat additivity / antisymmetry / zero / derivative identities"),
    "C14": ("5 C14", "all 9 unit pairs and 27 triples with symbolic value, scale and molar mass: factor, linearity, identity, round trip, "
                     "path independence, constants; every leaf of missing-component / unknown-unit calls raises; value clamp"),
    "C15": ("5 C15", "unbounded: round trip, end points, sum, monotonicity, ratio law as rational identities in (p, q, M1, M2) on the executed "
                     "conversion code; one object converted for two mixtures; rejection outside [0,1] on every leaf of the real validator (nan / inf as labelled concrete points)"),
}

PENDING = {}


def main():
    props = [json.loads(l) for l in open(os.path.join(VERIF, "properties.jsonl"))]
    checks, na = [], []
    for p in props:
        pid = p["id"]
        if pid in CHECKS and os.path.exists(os.path.join(VERIF, "vf", "props", pid + ".py")):
            ref, text = CHECKS[pid]
            checks.append({
                "property_id": pid,
                "quick_cmd": "./vcheck %s --tier quick" % pid,
                "thorough_cmd": "./vcheck %s --tier thorough" % pid,
                "evidence_file": "/verif/evidence/%s.json" % pid,
                "replay_cmd_template": "./vcheck %s --replay {path}" % pid,
                "engine": "symx",
                "level_claimed": {"category": "other", "text": "bounded symbolic checking of the real code: " + text, "design_ref": "DESIGN.md " + ref},
                "level_note": NOTE,
                "technique": TECH,
            })
        else:
            na.append({"property_id": pid, "reason": PENDING.get(pid, "check not built yet (construction in progress); no claim is made")})
    man = {
        "version": 1,
        "setup_cmd": "./setup.sh",
        "hooks": {
            "guard": "PYVAPORATION_VERIF",
            "enable": "no source hooks are needed: stubs are installed by the check process on the imported modules; PYTHONPATH puts /repo's working tree first",
            "baseline_off_cmd": "cd /repo && /venv/bin/python -m pytest -ra -q -p no:cacheprovider --timeout=900 --continue-on-collection-errors",
            "source_commits": [],
            "add_only": True,
        },
        "engines": [
            {"name": "symx", "path": "/verif/vf", "serves_properties": [c["property_id"] for c in checks],
             "kind_free_text": "lifted (symbolic) execution of the repo's Python on z3 proxies, re-execution DFS over branches, purified UFs, z3 as decision procedure, cvc5 + /usr/bin/z3 cross-check in the thorough tier"},
        ],
        "checks": checks,
        "notes": "exit 0 held / 1 VIOLATION (reproduced on the real code) / 2 harness error. Known findings: /verif/known_findings.json",
        "not_applicable": na,
    }
    json.dump(man, open(os.path.join(VERIF, "MANIFEST.json"), "w"), indent=1)
    print("checks:", [c["property_id"] for c in checks], "not claimed:", [n["property_id"] for n in na])


if __name__ == "__main__":
    main()

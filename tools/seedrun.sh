#!/bin/bash
# run the given checks against a seeded change (without touching evidence/).  usage: tools/seedrun.sh <seed-id> <check> [<check>...]
# default: the change is applied to a scratch worktree of /repo's HEAD under /tmp (removed afterwards) and the checks run with
# VERIF_REPO pointing there, so that background runs reading /repo are not disturbed; SEED_INPLACE=1 applies it to /repo itself
# (git -C /repo apply ...; checks; git -C /repo checkout -- .)
ID=$1; shift
OUT=${SEED_OUT:-/tmp/wt}; mkdir -p $OUT
if [ -n "$SEED_INPLACE" ]; then
  cd /repo && git diff --quiet || { echo "repo dirty"; exit 9; }
  git -C /repo apply /verif/seeded/$ID/patch.diff || exit 9
  R=/repo
else
  R=/tmp/wt/seedrepo_$ID
  git -C /repo worktree add -q --detach $R HEAD || exit 9
  git -C $R apply /verif/seeded/$ID/patch.diff || { echo "seed=$ID patch does not apply"; git -C /repo worktree remove --force $R; exit 9; }
fi
for c in "$@"; do
  cd /verif && VERIF_REPO=$R VERIF_NO_EVIDENCE=1 ./vcheck $c > $OUT/seed_$ID.$c.out 2>&1; rc=$?
  echo "seed=$ID check=$c exit=$rc violations=$(grep -c '^VIOLATION' $OUT/seed_$ID.$c.out) $(grep '^VIOLATION' $OUT/seed_$ID.$c.out | head -1 | cut -c1-260)"
  tail -1 $OUT/seed_$ID.$c.out | cut -c1-200 | grep -v "^C[0-9][0-9] tier"
done
if [ -n "$SEED_INPLACE" ]; then git -C /repo checkout -- .; else git -C /repo worktree remove --force $R; fi

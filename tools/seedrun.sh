#!/bin/bash
# apply a seeded change to /repo, run the given checks (without touching evidence/), undo it.  usage: tools/seedrun.sh <seed-id> <check> [<check>...]
ID=$1; shift
cd /repo && git diff --quiet || { echo "repo dirty"; exit 9; }
git -C /repo apply /verif/seeded/$ID/patch.diff || exit 9
for c in "$@"; do
  cd /verif && VERIF_NO_EVIDENCE=1 ./vcheck $c > /tmp/wt/seed_$ID.$c.out 2>&1; rc=$?
  echo "seed=$ID check=$c exit=$rc violations=$(grep -c '^VIOLATION' /tmp/wt/seed_$ID.$c.out) $(grep '^VIOLATION' /tmp/wt/seed_$ID.$c.out | head -1 | cut -c1-260)"
  tail -1 /tmp/wt/seed_$ID.$c.out | cut -c1-200 | grep -v "^C[0-9][0-9] tier" 
done
git -C /repo checkout -- .

#!/usr/bin/env python
"""validate MANIFEST.json and evidence/*.json against the schemas in /root/.vp"""
import json, sys, glob, jsonschema
ok = True
def chk(path, schema):
    global ok
    try:
        jsonschema.validate(json.load(open(path)), json.load(open(schema)))
        print("ok  ", path)
    except Exception as e:
        ok = False; print("FAIL", path, str(e)[:300])
chk("/verif/MANIFEST.json", "/root/.vp/MANIFEST.schema.json")
for p in sorted(glob.glob("/verif/evidence/*.json")): chk(p, "/root/.vp/EVIDENCE.schema.json")
sys.exit(0 if ok else 1)

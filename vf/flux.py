"""Shared harness for the flux solver `Pervaporation.calculate_partial_fluxes` (C02, C06-C10)."""
import math

import z3

import pyvaporation as pv
from pyvaporation.mixtures import Mixtures
from pyvaporation.mixtures import mixture as mixmod
from pyvaporation.pervaporation.pervaporation import Pervaporation

from .symx import real, lift, SReal, UF, Cut, rv
from . import build
from .core import Patches, close

MODES = ("vac", "ptemp", "ppres")


class FluxSetup:
    """symbolic mixture with GAMMA/PSAT stubs, symbolic feed state, permeances and permeate condition"""

    def __init__(self, mode, model="NRTL", suffix="", mixture=None):
        self.mode, self.model = mode, model
        self.mix = mixture or build.sym_mixture(uniquac=True)
        self.M1, self.M2 = self.mix.first_component.molecular_weight, self.mix.second_component.molecular_weight
        s = suffix
        self.T, self.x, self.prec = real("T" + s), real("x" + s), real("prec" + s)
        self.P1, self.P2 = real("P1" + s), real("P2" + s)
        self.Tp = real("Tp" + s) if mode == "ptemp" else None
        self.Pp = real("Pp" + s) if mode == "ppres" else None
        self.pz = build.pervaporation(self.mix)

    def domain(self, prec_max=1):
        d = [self.T.t > 273, self.T.t < 400, self.x.t > 0, self.x.t < 1, self.prec.t > 0, self.prec.t <= prec_max,
             self.P1.t > 0, self.P2.t > 0, lift(self.M1) > 0, lift(self.M2) > 0]
        if self.Tp is not None:
            d += [self.Tp.t >= 120, self.Tp.t <= self.T.t]
        if self.Pp is not None:
            d += [self.Pp.t >= 0, self.Pp.t <= 100]
        return d

    def inputs(self, **extra):
        d = {"mode": self.mode, "model": self.model, "T": self.T.t, "x": self.x.t, "prec": self.prec.t,
             "P1": self.P1.t, "P2": self.P2.t, "M1": lift(self.M1), "M2": lift(self.M2)}
        if self.Tp is not None:
            d["Tp"] = self.Tp.t
        if self.Pp is not None:
            d["Pp"] = self.Pp.t
        d.update(extra)
        return d

    # -- oracle (the statement of C02 in code form) ------------------------------------------------
    def xmol(self, w):
        return build.x_of_w(w, self.M1, self.M2)

    def pp(self, Tt, w, basis="weight"):
        """x_i * gamma_i * PSAT_i at temperature Tt for mass fraction w (stubs = same UFs the code calls)"""
        xm = self.xmol(w) if basis == "weight" else lift(w)
        return (UF("PSAT1", Tt, pos=True) * UF("GAMMA1_%s" % self.model, Tt, xm, pos=True) * xm,
                UF("PSAT2", Tt, pos=True) * UF("GAMMA2_%s" % self.model, Tt, xm, pos=True) * (1 - xm))

    def feed_pp(self, basis="weight"):
        return self.pp(self.T.t, self.x.t, basis)

    def F(self, y, variant="mass", basis="weight", P=None):
        """fluxes at permeate mass fraction y"""
        a, b = self.feed_pp(basis)
        P1, P2 = P if P is not None else (self.P1.t, self.P2.t)
        if self.mode == "vac":
            q = (0, 0)
        elif self.mode == "ptemp":
            q = self.pp(self.Tp.t, y)
        else:
            yy = y if variant == "mass" else self.xmol(y)
            q = (self.Pp.t * yy, self.Pp.t * (1 - yy))
        return P1 * (a - q[0]), P2 * (b - q[1])

    def iterates(self, n, variant="mass", basis="weight", P=None):
        a, b = self.feed_pp(basis)
        P1, P2 = P if P is not None else (self.P1.t, self.P2.t)
        ys = [P1 * a / (P1 * a + P2 * b)]
        for _ in range(n):
            j = self.F(ys[-1], variant, basis, P)
            ys.append(j[0] / (j[0] + j[1]))
        return ys


class IterateNames:
    """gives every permeate-composition iterate of the flux loop a fresh name (defining equality joins the path
    condition); `names` collects them in call order"""

    def __init__(self, patches):
        from pyvaporation.pervaporation import pervaporation as pvmod
        from .symx import named
        self.names = []
        from .core import require
        orig = require(pvmod, "get_permeate_composition_from_fluxes")
        me = self

        def wrapped(fluxes):
            c = orig(fluxes)
            if isinstance(c.p, SReal) and not z3.is_const(c.p.t):
                c.p = named(c.p, "y")
            me.names.append(c.p)
            return c

        patches.set(pvmod, "get_permeate_composition_from_fluxes", wrapped)

    def reset(self):
        self.names = []


class LoopCounter:
    """counts driving-force evaluations of one flux calculation and cuts the path beyond the bound"""

    def __init__(self, patches, K):
        self.n = 0
        self.K = K
        from .core import require
        orig = require(Pervaporation, "get_partial_fluxes_from_permeate_composition")
        me = self

        def counted(self, *a, **k):
            me.n += 1
            if me.n > me.K + 1:
                raise Cut("flux iteration bound K=%d" % me.K)
            return orig(self, *a, **k)

        patches.set(Pervaporation, "get_partial_fluxes_from_permeate_composition", counted)

    def reset(self):
        self.n = 0


# ------------------------------------------------------------------------------------------------
# concrete reference on the real code (replay / translator validation)


def float_mixture(name=None, M1=None, M2=None):
    base = getattr(Mixtures, name) if name else Mixtures.H2O_EtOH
    return base


def real_call(inp, mix=None, helper="calculate_partial_fluxes", count=None):
    mix = mix or float_mixture(inp.get("mixture"))
    pz = build.pervaporation(mix, membrane=False)
    basis = inp.get("basis", "weight")
    x = inp["x"]
    comp = mixmod.Composition(x, basis)
    return pz.calculate_partial_fluxes(
        feed_temperature=inp["T"], composition=comp, precision=inp["prec"],
        permeate_temperature=inp.get("Tp"), permeate_pressure=inp.get("Pp"),
        first_component_permeance=pv.Permeance(inp["P1"]), second_component_permeance=pv.Permeance(inp["P2"]),
        calculation_type=inp.get("model", "NRTL"))


def admissible(inp):
    try:
        ok = 273 < inp["T"] < 400 and 0 < inp["x"] < 1 and 0 < inp["prec"] <= 1 and inp["P1"] > 0 and inp["P2"] > 0
        if inp.get("Tp") is not None:
            ok = ok and 120 <= inp["Tp"] <= inp["T"]
        if inp.get("Pp") is not None:
            ok = ok and 0 <= inp["Pp"] <= 100
        return bool(ok)
    except (TypeError, KeyError):
        return False


def reference(inp, mix=None, max_iter=2000):
    """float re-statement of the C02 oracle using the real thermodynamics: returns (fluxes at y_n, y_n, n)"""
    mix = mix or float_mixture(inp.get("mixture"))
    model = inp.get("model", "NRTL")
    T, P1, P2 = inp["T"], inp["P1"], inp["P2"]
    feed = mixmod.Composition(inp["x"], inp.get("basis", "weight"))
    a, b = (float(v) for v in mixmod.get_partial_pressures(T, mix, feed, model))

    def F(y):
        if inp.get("Tp") is not None:
            q = mixmod.get_partial_pressures(inp["Tp"], mix, mixmod.Composition(y, "weight"), model)
        elif inp.get("Pp") is not None:
            q = (inp["Pp"] * y, inp["Pp"] * (1 - y))
        else:
            q = (0.0, 0.0)
        return P1 * (a - float(q[0])), P2 * (b - float(q[1]))

    y = P1 * a / (P1 * a + P2 * b)
    d, n = 1.0, 0
    while d >= inp["prec"]:
        j = F(y)
        yn = j[0] / (j[0] + j[1])
        if not 0 <= yn <= 1:
            return None
        d = abs(yn - y)
        y = yn
        n += 1
        if n > max_iter:
            return None
    return F(y), y, n, (a, b)


FALLBACK = [
    {"mixture": "H2O_EtOH", "T": 333.15, "x": 0.15, "prec": 5e-5, "P1": 0.036091, "P2": 0.0000282, "Tp": 293.15, "Pp": 2.0},
    {"mixture": "H2O_iPOH", "T": 353.15, "x": 0.6, "prec": 1e-4, "P1": 0.02, "P2": 0.004, "Tp": 283.15, "Pp": 5.0},
    # the low end of the permeance range with the finest precision: absolute slips of 1e-10 in a flux or a fraction are relative 1e-5 here
    {"mixture": "H2O_EtOH", "T": 293.15, "x": 0.1, "prec": 1e-8, "P1": 1e-6, "P2": 3e-6, "Tp": 278.15, "Pp": 2.297, "k": 1000.0},
]


def fallback_for(mode):
    out = []
    for f in FALLBACK:
        f = dict(f)
        if mode != "ptemp":
            f.pop("Tp")
        if mode != "ppres":
            f.pop("Pp")
        out.append(f)
    return out

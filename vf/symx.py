"""symx -- lifted execution of the repository's real Python code on z3 proxies.

The repo functions are *run* (not modelled): numeric inputs are replaced by `SReal` proxies that
build z3 Real terms, `SBool.__bool__` forks the execution (re-execution DFS), `exp/log` and stubbed
callees are purified uninterpreted functions.  See DESIGN.md section 2.
"""
import fractions
import itertools
import math
import time

import numpy
import z3


class Unsupported(BaseException):
    """a proxy was forced into a concrete value (float(), int(), index...): path is inconclusive"""


class Cut(BaseException):
    """a stated bound was reached (loop unrolling): path is cut, counted and reported"""


class Infeasible(BaseException):
    """both sides of a branch are inconsistent with the path condition"""


class Stats:
    feas_queries = 0
    feas_time = 0.0
    feas_unknown = 0
    paths = 0

    @classmethod
    def reset(cls):
        cls.feas_queries = 0
        cls.feas_time = 0.0
        cls.feas_unknown = 0
        cls.paths = 0


# ------------------------------------------------------------------------------------------------
# exact lifting of numbers


def rv(v):
    """exact rational z3 value for a python/numpy number (shortest decimal repr of floats)"""
    if isinstance(v, bool):
        raise TypeError("bool is not a number here")
    if isinstance(v, (int, numpy.integer)):
        return z3.RealVal(int(v))
    if isinstance(v, fractions.Fraction):
        return z3.RealVal("%d/%d" % (v.numerator, v.denominator))
    if isinstance(v, (float, numpy.floating)):
        f = float(v)
        if math.isinf(f) or math.isnan(f):
            raise Unsupported("non-finite constant %r" % f)
        fr = fractions.Fraction(repr(f))
        return z3.RealVal("%d/%d" % (fr.numerator, fr.denominator))
    raise TypeError(type(v))


def lift(v):
    if isinstance(v, SReal):
        return v.t
    if isinstance(v, z3.ArithRef):
        return v
    return rv(v)


def is_num(t):
    return z3.is_rational_value(t) or z3.is_int_value(t)


def num_value(t):
    return fractions.Fraction(t.numerator_as_long(), t.denominator_as_long())


# ------------------------------------------------------------------------------------------------
# purified uninterpreted functions


class Pure:
    """table of purified applications: fresh Real per (function name, simplified argument tuple)"""

    tab = {}  # key -> (var, name, args)
    byvar = {}  # var id -> (name, args, var)
    axioms = []  # sound facts about the variables (EXP > 0, stub contracts)
    var_axioms = {}  # var id -> [facts] (relevance-filtered view used for property queries)
    counter = itertools.count()

    @classmethod
    def reset(cls):
        cls.tab = {}
        cls.byvar = {}
        cls.axioms = []
        cls.var_axioms = {}
        cls.defs = {}
        cls.eager = set()
        cls.canon_args = False
        cls.counter = itertools.count()

    @classmethod
    def app(cls, name, args, pos=False, nonneg=False):
        args = [z3.simplify(a) for a in args]
        if cls.canon_args and name not in ("EXP", "LOG", "SQRT"):
            # relational checks: key stub applications by the canonical rational form of their arguments, so that
            # semantically equal questions of the two runs get the same answer without congruence reasoning
            from .terms import canon
            args = [z3.simplify(canon(a)) for a in args]
        key = (name,) + tuple(a.get_id() for a in args)
        hit = cls.tab.get(key)
        if hit is not None:
            return hit[0]
        v = z3.Real("%s!%d" % (name, next(cls.counter)))
        if name in cls.eager:
            # eager Ackermann congruence with the earlier applications of the same function (relational runs)
            for (v2, name2, args2) in list(cls.tab.values()):
                if name2 == name and len(args2) == len(args):
                    pre = z3.simplify(z3.And(*[x == y for x, y in zip(args, args2)])) if args else z3.BoolVal(True)
                    if not z3.is_false(pre):
                        cls.axiom(z3.Implies(pre, v == v2), v)
        cls.tab[key] = (v, name, args)
        cls.byvar[v.get_id()] = (name, args, v)
        if pos:
            cls.axiom(v > 0, v)
        elif nonneg:
            cls.axiom(v >= 0, v)
        return v

    @classmethod
    def axiom(cls, fact, var=None):
        cls.axioms.append(fact)
        if var is not None:
            cls.var_axioms.setdefault(var.get_id(), []).append(fact)
        if Ctx.cur is not None:
            Ctx.cur.solver.add(fact)

    @classmethod
    def relevant_axioms(cls, exprs):
        """axioms of the purified variables occurring in exprs (closed under the axioms' own variables)"""
        seen_ast, seen_var, out = set(), set(), []
        stack = list(exprs)
        while stack:
            t = stack.pop()
            k = t.get_id()
            if k in seen_ast:
                continue
            seen_ast.add(k)
            if z3.is_const(t):
                if k in cls.byvar and k not in seen_var:
                    seen_var.add(k)
                    for f in cls.var_axioms.get(k, []):
                        out.append(f)
                        stack.append(f)
            else:
                stack.extend(t.children())
        return out

    @classmethod
    def lookup(cls, t):
        """(name, args) if t is a purified variable else None"""
        hit = cls.byvar.get(t.get_id())
        return None if hit is None else (hit[0], hit[1])

    defs = {}  # named variable id -> defining term (symx.named)
    eager = set()  # function names whose congruence is asserted at creation
    canon_args = False

    @classmethod
    def near(cls, exprs, depth=2):
        """ids of purified variables occurring in exprs, looking through at most `depth` levels of named-variable
        definitions (not through the arguments of purified applications)"""
        out, seen = set(), set()
        frontier = [(e, 0) for e in exprs]
        while frontier:
            t, d = frontier.pop()
            k = (t.get_id(), d)
            if t.get_id() in seen:
                continue
            seen.add(t.get_id())
            if z3.is_const(t):
                i = t.get_id()
                if i in cls.byvar:
                    out.add(i)
                elif i in cls.defs and d < depth:
                    frontier.append((cls.defs[i], d + 1))
            else:
                frontier.extend((c, d) for c in t.children())
        return out

    @classmethod
    def congruence(cls, names=None, within=None):
        """Ackermann implications for pairs of applications of the same function"""
        out = []
        groups = {}
        for (v, name, args) in cls.tab.values():
            if within is not None and v.get_id() not in within:
                continue
            if names is None or name in names:
                groups.setdefault((name, len(args)), []).append((v, args))
        for lst in groups.values():
            for (v1, a1), (v2, a2) in itertools.combinations(lst, 2):
                eqs = [x == y for x, y in zip(a1, a2)]
                pre = z3.simplify(z3.And(*eqs)) if eqs else z3.BoolVal(True)
                if z3.is_false(pre):
                    continue
                out.append(z3.Implies(pre, v1 == v2))
        return out


def UF(name, *args, pos=False, nonneg=False):
    return Pure.app(name, [lift(a) for a in args], pos=pos, nonneg=nonneg)


def EXP(t):
    t = z3.simplify(t)
    if is_num(t) and num_value(t) == 0:
        return z3.RealVal(1)
    hit = Pure.lookup(t)
    if hit is not None and hit[0] == "LOG":
        # EXP(LOG(u)) = u for u > 0: the repo only takes logs of positive quantities; stated assumption
        return hit[1][0]
    new = ("EXP", t.get_id()) not in Pure.tab
    v = Pure.app("EXP", [t], pos=True)
    if new:
        Pure.axiom(z3.Implies(t == 0, v == 1), v)
    return v


def LOG(t):
    t = z3.simplify(t)
    if is_num(t):
        c = num_value(t)
        if c == 1:
            return z3.RealVal(0)
        if c > 0:
            # the source mixes `10 ** x` with the float constant numpy.log(10): identify LOG(c) of a
            # concrete c with its double value (DESIGN 3.1(d))
            return rv(math.log(float(c)))
        raise Unsupported("log of non-positive constant")
    hit = Pure.lookup(t)
    if hit is not None and hit[0] == "EXP":
        return hit[1][0]
    if z3.is_app(t) and t.decl().kind() in (z3.Z3_OP_MUL, z3.Z3_OP_DIV):
        # ln of a product / quotient is split into the sum / difference of the logs of its factors (all factors positive:
        # the repo takes logarithms of positive quantities built from positive quantities -- stated assumption)
        ch = t.children()
        if not any(is_num(f) and num_value(f) <= 0 for f in ch):
            if t.decl().kind() == z3.Z3_OP_DIV:
                return LOG(ch[0]) - LOG(ch[1])
            r = LOG(ch[0])
            for f in ch[1:]:
                r = r + LOG(f)
            return r
    new = ("LOG", t.get_id()) not in Pure.tab
    v = Pure.app("LOG", [t])
    if new:
        Pure.axiom(z3.Implies(t == 1, v == 0), v)
    return v


def SQRT(t):
    t = z3.simplify(t)
    if is_num(t):
        c = num_value(t)
        if c >= 0:
            r = fractions.Fraction(math.isqrt(c.numerator), math.isqrt(c.denominator))
            if r * r == c:
                return rv(r)
    new = ("SQRT", t.get_id()) not in Pure.tab
    v = Pure.app("SQRT", [t], nonneg=True)
    if new:
        Pure.axiom(v * v == t, v)
    return v


# ------------------------------------------------------------------------------------------------
# execution context and path exploration


class Ctx:
    cur = None

    def __init__(self, assumptions=(), decisions=None, timeout_ms=1000):
        self.solver = z3.Solver()
        self.solver.set("timeout", timeout_ms)
        self.solver.add(*Pure.axioms)
        self.solver.add(*assumptions)
        self.decisions = decisions if decisions is not None else []
        self.pos = 0
        self.pc = []
        self.hazards = []
        self.assumed = []
        self.nq = 0
        self.fresh = itertools.count()
        self.notes = {}

    def branch(self, cond):
        cond = z3.simplify(cond)
        if z3.is_true(cond):
            return True
        if z3.is_false(cond):
            return False
        if self.pos < len(self.decisions):
            v = self.decisions[self.pos][0]
        else:
            t0 = time.time()
            nq0 = self.nq
            r1 = self.solver.check(cond)
            self.nq += 1
            if r1 == z3.unsat:
                ft, ff = False, True
            else:
                r2 = self.solver.check(z3.Not(cond))
                self.nq += 1
                ft, ff = True, r2 != z3.unsat
                if r1 == z3.unknown or r2 == z3.unknown:
                    Stats.feas_unknown += 1
            Stats.feas_queries += self.nq - nq0
            Stats.feas_time += time.time() - t0
            if ft and ff:
                self.decisions.append([True, True])
                v = True
            elif ft:
                self.decisions.append([True, False])
                v = True
            else:
                self.decisions.append([False, False])
                v = False
        self.pos += 1
        c = cond if v else z3.Not(cond)
        self.pc.append(c)
        self.solver.add(c)
        return v

    def assume(self, cond):
        self.pc.append(cond)
        self.assumed.append(cond)
        self.solver.add(cond)


def assume(cond):
    """add a constraint to the current path without forking (listed as an assumption of the claim)"""
    if isinstance(cond, SBool):
        cond = cond.t
    if Ctx.cur is None:
        raise Unsupported("assume outside exploration")
    Ctx.cur.assume(cond)


def hazard(den):
    if Ctx.cur is not None and not is_num(den):
        Ctx.cur.hazards.append(den)


class Leaf:
    __slots__ = ("kind", "value", "pc", "hazards", "assumed", "nq", "notes", "trace")

    def __init__(self, kind, value, ctx):
        self.kind = kind  # returned | raised | cut | inconclusive | infeasible
        self.value = value
        self.pc = list(ctx.pc)
        self.hazards = list(ctx.hazards)
        self.assumed = list(ctx.assumed)
        self.nq = ctx.nq
        self.notes = ctx.notes
        self.trace = [d[0] for d in ctx.decisions[: ctx.pos]]

    def conds(self):
        """path condition plus 'no division by zero on this path'"""
        return self.pc + [h != 0 for h in self.hazards]


def explore(fn, assumptions=(), max_paths=4000, timeout_ms=1000):
    """run fn() under every feasible decision sequence; yields Leaf objects"""
    decisions = []
    n = 0
    while True:
        ctx = Ctx(assumptions, decisions, timeout_ms)
        Ctx.cur = ctx
        try:
            try:
                out = ("returned", fn())
            except Cut as e:
                out = ("cut", e)
            except Infeasible as e:
                out = ("infeasible", e)
            except Unsupported as e:
                out = ("inconclusive", e)
            except Exception as e:  # an exception raised by the repo's code (often the subject)
                out = ("raised", e)
        finally:
            Ctx.cur = None
        Stats.paths += 1
        yield Leaf(out[0], out[1], ctx)
        n += 1
        decisions = ctx.decisions[: ctx.pos]
        while decisions and not (decisions[-1][1] and decisions[-1][0] is True):
            decisions.pop()
        if not decisions:
            return
        if n >= max_paths:
            raise RuntimeError("path budget exhausted (%d)" % max_paths)
        decisions[-1] = [False, False]


# ------------------------------------------------------------------------------------------------
# proxies


class SBool:
    __slots__ = ("t",)

    def __init__(self, t):
        self.t = t

    def __bool__(self):
        if Ctx.cur is None:
            raise Unsupported("symbolic branch outside exploration")
        return Ctx.cur.branch(self.t)

    def __repr__(self):
        return "SBool(%s)" % str(self.t)[:80]


def _cmp(op):
    def f(a, b):
        if isinstance(b, (float, numpy.floating)) and math.isinf(b):
            big = b > 0
            return {"lt": big, "le": big, "gt": not big, "ge": not big}[op]
        try:
            bt = lift(b)
        except TypeError:
            return NotImplemented
        return SBool({"lt": a.t < bt, "le": a.t <= bt, "gt": a.t > bt, "ge": a.t >= bt}[op])

    return f


class SReal:
    __slots__ = ("t",)
    __array_priority__ = 1000

    def __init__(self, t):
        self.t = t

    def __array_function__(self, func, types, args, kwargs):
        """numpy functions (not ufuncs) called with a proxy as a top-level argument: isclose gets its defining formula
        |a - b| <= atol + rtol |b| (a symbolic Boolean, so the caller's `if` forks); everything else runs as before"""
        import numpy as _np
        if func is _np.isclose:
            a, b = args[0], args[1]
            rtol = kwargs.get("rtol", args[2] if len(args) > 2 else 1e-05)
            atol = kwargs.get("atol", args[3] if len(args) > 3 else 1e-08)
            a, b = (v if isinstance(v, SReal) else SReal(lift(v)) for v in (a, b))
            return abs(a - b) <= atol + rtol * abs(b)
        impl = getattr(func, "_implementation", None)
        if impl is None:
            return NotImplemented
        return impl(*args, **kwargs)

    # arithmetic -------------------------------------------------------------------------------
    def __add__(a, b):
        return SReal(a.t + lift(b))

    def __radd__(a, b):
        return SReal(lift(b) + a.t)

    def __sub__(a, b):
        return SReal(a.t - lift(b))

    def __rsub__(a, b):
        return SReal(lift(b) - a.t)

    def __mul__(a, b):
        return SReal(a.t * lift(b))

    def __rmul__(a, b):
        return SReal(lift(b) * a.t)

    def __truediv__(a, b):
        bt = lift(b)
        hazard(bt)
        if is_num(a.t) and num_value(a.t) == 0:
            return SReal(a.t)  # 0 / b = 0 wherever b != 0 (recorded hazard); z3 does not fold this
        return SReal(a.t / bt)

    def __rtruediv__(a, b):
        hazard(a.t)
        bt = lift(b)
        if is_num(bt) and num_value(bt) == 0:
            return SReal(bt)
        return SReal(bt / a.t)

    def __neg__(a):
        return SReal(-a.t)

    def __pos__(a):
        return a

    def __abs__(a):
        return SReal(z3.If(a.t >= 0, a.t, -a.t))

    def __pow__(a, n):
        if isinstance(n, (float, numpy.floating)) and float(n).is_integer():
            n = int(n)
        if isinstance(n, (int, numpy.integer)) and not isinstance(n, bool):
            n = int(n)
            r = z3.RealVal(1)
            for _ in range(abs(n)):
                r = r * a.t
            if n < 0:
                hazard(a.t)
                r = 1 / r
            return SReal(r)
        raise Unsupported("power with exponent %r" % (n,))

    def __rpow__(a, base):
        return SReal(EXP(a.t * LOG(lift(base))))

    # numpy object-dtype dispatch: numpy.exp(obj) -> obj.exp() etc.
    def exp(a):
        return SReal(EXP(a.t))

    def log(a):
        return SReal(LOG(a.t))

    def sqrt(a):
        return SReal(SQRT(a.t))

    # comparisons ------------------------------------------------------------------------------
    __lt__ = _cmp("lt")
    __le__ = _cmp("le")
    __gt__ = _cmp("gt")
    __ge__ = _cmp("ge")

    def __eq__(a, b):
        try:
            return SBool(a.t == lift(b))
        except TypeError:
            return False

    def __ne__(a, b):
        try:
            return SBool(a.t != lift(b))
        except TypeError:
            return True

    def __hash__(a):
        return 0

    def __bool__(a):
        # truthiness of a number (`if permeate_pressure:`) is a branch on `!= 0`, never silently True
        if Ctx.cur is None:
            raise Unsupported("truth value of a symbolic number outside exploration")
        return Ctx.cur.branch(a.t != 0)

    # realisation is never silent ----------------------------------------------------------------
    def __float__(a):
        raise Unsupported("float() of a symbolic value")

    def __int__(a):
        raise Unsupported("int() of a symbolic value")

    def __index__(a):
        raise Unsupported("index() of a symbolic value")

    def __round__(a, n=None):
        if n is None or not isinstance(n, int):
            raise Unsupported("round() of a symbolic value to an integer")
        # round(x, n): an uninterpreted function of x with the defining bound |round(x, n) - x| <= 0.5 * 10**-n
        # (which value in that band is chosen -- ties, binary representation -- is left open: sound for unsat)
        t = z3.simplify(a.t)
        if z3.is_rational_value(t):
            from fractions import Fraction
            q = Fraction(t.numerator_as_long(), t.denominator_as_long())
            return SReal(rv(round(float(q), n)))
        v = Pure.app("ROUND%d" % n, [t])
        half = z3.RealVal(5) / z3.RealVal(10 ** (n + 1)) if n >= 0 else z3.RealVal(5 * 10 ** (-n - 1))
        Pure.axiom(z3.And(v - t <= half, t - v <= half), v)
        return SReal(v)

    def __repr__(a):
        return "S(%s)" % str(a.t).replace("\n", " ")[:70]

    __str__ = __repr__


def real(name):
    return SReal(z3.Real(name))


def fresh(prefix="v"):
    return z3.Real("%s!%d" % (prefix, next(Pure.counter)))


def named(t, prefix="n"):
    """give a large term a fresh name (defining equality joins the path condition)"""
    v = fresh(prefix)
    if Ctx.cur is None:
        raise Unsupported("named outside exploration")
    Ctx.cur.assume(v == lift(t))
    Pure.defs[v.get_id()] = lift(t)
    return SReal(v)


def T(x):
    """z3 term of a proxy or number"""
    return lift(x)


class SInt:
    """symbolic integer (loop counters in the C10 ranking check)"""

    __slots__ = ("t",)

    def __init__(self, t):
        self.t = t

    @staticmethod
    def _l(b):
        if isinstance(b, SInt):
            return b.t
        if isinstance(b, (int, numpy.integer)) and not isinstance(b, bool):
            return z3.IntVal(int(b))
        raise Unsupported("SInt with %r" % (b,))

    def __add__(a, b):
        return SInt(a.t + SInt._l(b))

    __radd__ = __add__

    def __sub__(a, b):
        return SInt(a.t - SInt._l(b))

    def __gt__(a, b):
        return SBool(a.t > SInt._l(b))

    def __ge__(a, b):
        return SBool(a.t >= SInt._l(b))

    def __lt__(a, b):
        return SBool(a.t < SInt._l(b))

    def __le__(a, b):
        return SBool(a.t <= SInt._l(b))

    def __eq__(a, b):
        return SBool(a.t == SInt._l(b))

    def __ne__(a, b):
        return SBool(a.t != SInt._l(b))

    def __hash__(a):
        return 0

    def __repr__(a):
        return "SInt(%s)" % a.t

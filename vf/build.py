"""Builders for symbolic repo objects (attrs converters run only in __init__, so objects are built
with placeholders and their fields are then assigned) and shared stubs."""
import copy

import attr
import z3

import pyvaporation as pv
from pyvaporation.mixtures import mixture as mixmod
from pyvaporation.utils import utils as utilmod

from .symx import SReal, SBool, real, rv, lift, UF, assume, Ctx, is_num

Composition = mixmod.Composition


def S(x):
    """proxy for a z3 term / number"""
    if isinstance(x, SReal):
        return x
    if isinstance(x, z3.ExprRef):
        return SReal(x)
    return SReal(rv(x))


def lift_obj(obj, memo=None):
    """deep copy of an attrs object graph with every float/int field replaced by an exact proxy"""
    if memo is None:
        memo = {}
    if id(obj) in memo:
        return memo[id(obj)]
    if isinstance(obj, bool) or obj is None or isinstance(obj, str):
        return obj
    if isinstance(obj, (int, float)):
        return S(obj)
    if isinstance(obj, (list, tuple)):
        return type(obj)(lift_obj(o, memo) for o in obj)
    if attr.has(type(obj)):
        new = copy.copy(obj)
        memo[id(obj)] = new
        for f in attr.fields(type(obj)):
            setattr(new, f.name, lift_obj(getattr(obj, f.name), memo))
        return new
    return obj


def sym_component(tag, vp_type="antoine", uniquac=False, sym=True):
    c = pv.Component(
        name="c" + tag,
        molecular_weight=1,
        vapour_pressure_constants=pv.VaporPressureConstants(a=1, b=1, c=1, type=vp_type),
        heat_capacity_constants=pv.HeatCapacityConstants(a=1, b=1, c=1, d=1),
    )
    if sym:
        c.molecular_weight = real("M" + tag)
        for k in "abc":
            setattr(c.vapour_pressure_constants, k, real("vp%s_%s" % (k, tag)))
        for k in "abcd":
            setattr(c.heat_capacity_constants, k, real("cp%s_%s" % (k, tag)))
    if uniquac:
        c.uniquac_constants = utilmod.UNIQUACConstants(r=real("r" + tag), q_geometric=real("q" + tag), q_interaction=real("qi" + tag))
    return c


def sym_nrtl(two_alpha=False, with_a=True, suffix=""):
    return pv.NRTLParameters(
        g12=real("g12" + suffix), g21=real("g21" + suffix), alpha12=real("al12" + suffix),
        alpha21=real("al21" + suffix) if two_alpha else None,
        a12=real("a12" + suffix) if with_a else 0, a21=real("a21" + suffix) if with_a else 0,
    )


def sym_mixture(c1=None, c2=None, nrtl=True, uniquac=False, name="symmix", **kw):
    c1 = c1 or sym_component("1")
    c2 = c2 or sym_component("2")
    up = None
    if uniquac:
        up = pv.UNIQUACParameters(alpha_12=real("ua12"), alpha_21=real("ua21"), beta_12=real("ub12"), beta_21=real("ub21"), z=10)
    return pv.Mixture(name=name, first_component=c1, second_component=c2,
                      nrtl_params=sym_nrtl(**kw) if nrtl else None, uniquac_params=up)


def comp(p, typ="weight"):
    """Composition without running the [0,1] validator (used for inputs whose range is assumed)"""
    return bare(Composition, p=p, type=typ)


def perm(v, units=None):
    return bare(pv.Permeance, value=v, units=units if units is not None else pv.Units.kg_m2_h_kPa)


def assume_validator(patches):
    """swap Composition's [0,1] validator for an assumption (raising is not the subject there)"""

    def _init(self, p, type):
        self.p = p
        self.type = type
        if isinstance(p, SReal):
            if Ctx.cur is not None:
                assume(z3.And(p.t >= 0, p.t <= 1))
        elif not 0 <= p <= 1:
            raise ValueError("Give %s value is not in [0, 1] range" % p)

    patches.set(Composition, "__init__", _init)


def assume_permeance_clamp(patches):
    """Permeance(value) with a symbolic value: assume value >= 0 instead of forking on the clamp"""

    def _init(self, value, units=pv.Units.kg_m2_h_kPa):
        if isinstance(value, SReal):
            if Ctx.cur is not None:
                assume(value.t >= 0)
            self.value = value
        else:
            self.value = value if value >= 0 else 0
        self.units = units

    patches.set(pv.Permeance, "__init__", _init)


def comp_index(mixture, component):
    if component is mixture.first_component:
        return 1
    if component is mixture.second_component:
        return 2
    raise AssertionError("component not of this mixture")


def stub_thermo(patches, mixture, gamma=True, psat=True, heats=False):
    """replace activity coefficients / saturation pressure / latent + specific heats by purified UFs of
    their arguments (contracts: PSAT > 0, GAMMA > 0)"""
    c1, c2 = mixture.first_component, mixture.second_component
    Component = type(c1)

    def idx(c):
        return 1 if c is c1 else 2 if c is c2 else c.name

    if gamma:
        def stub_gamma(temperature, mixture, composition, calculation_type="NRTL"):
            if composition.type == "weight":
                composition = composition.to_molar(mixture)
            g1 = UF("GAMMA1_%s" % calculation_type, temperature, composition.p, pos=True)
            g2 = UF("GAMMA2_%s" % calculation_type, temperature, composition.p, pos=True)
            return SReal(g1), SReal(g2)

        patches.set(mixmod, "calculate_activity_coefficients", stub_gamma)
    if psat:
        patches.set(Component, "get_vapor_pressure", lambda self, t: SReal(UF("PSAT%s" % idx(self), t, pos=True)))
    if heats:
        patches.set(Component, "get_vaporisation_heat", lambda self, t: SReal(UF("HVAP%s" % idx(self), t)))
        patches.set(Component, "get_specific_heat", lambda self, t: SReal(UF("CP%s" % idx(self), t)))
        patches.set(Component, "get_cooling_heat", lambda self, t0, t1: SReal(UF("COOL%s" % idx(self), t0, t1)))


class StubMembrane:
    """membrane whose permeance is an arbitrary non-negative function of (component, temperature) in
    kg/(m2 h kPa) -- the contract Membrane.get_permeance is shown to meet in C12"""

    name = "stub"
    path = None

    def __init__(self, mixture):
        self.mixture = mixture
        self.calls = []

    def get_permeance(self, temperature, component, initial_permeance=None):
        i = comp_index(self.mixture, component)
        self.calls.append((i, temperature))
        return perm(SReal(UF("PERM%d" % i, temperature, nonneg=True)))

    def calculate_activation_energy(self, component):
        return SReal(UF("EA%d" % comp_index(self.mixture, component)))


def pervaporation(mixture, membrane=None):
    from pyvaporation.pervaporation.pervaporation import Pervaporation

    return bare(Pervaporation, membrane=membrane if membrane is not None else StubMembrane(mixture), mixture=mixture)


def domain_T(T):
    return [lift(T) > 273, lift(T) < 400]


def domain_open01(x):
    return [lift(x) > 0, lift(x) < 1]


def w_of_x(x, M1, M2):
    """oracle: mass fraction of a mole fraction"""
    x, M1, M2 = lift(x), lift(M1), lift(M2)
    return M1 * x / (M1 * x + M2 * (1 - x))


def x_of_w(w, M1, M2):
    w, M1, M2 = lift(w), lift(M1), lift(M2)
    return (w / M1) / (w / M1 + (1 - w) / M2)


def bare(cls, **fields):
    """an attrs object built without running __init__ / __attrs_post_init__ (the harness supplies already-normalised fields):
    every declared field first gets its declared default, so a field the harness does not know about is still present"""
    import attr

    o = cls.__new__(cls)
    for f in (attr.fields(cls) if attr.has(cls) else ()):
        if f.default is not attr.NOTHING:
            d = f.default
            object.__setattr__(o, f.name, d.factory() if isinstance(d, attr.Factory) and not d.takes_self else (None if isinstance(d, attr.Factory) else d))
    for k, v in fields.items():
        object.__setattr__(o, k, v)
    return o

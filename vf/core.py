"""Obligation framework: jobs, solver queries, replay gate, known findings, evidence."""
import contextlib
import hashlib
import importlib
import json
import os
import random
import re
import subprocess
import sys
import tempfile
import time
import traceback

import z3

from . import symx
from .symx import Pure, Stats

VERIF = os.path.dirname(os.path.dirname(os.path.abspath(__file__)))
REPO = os.environ.get("VERIF_REPO", "/repo")

EXIT_OK, EXIT_VIOLATION, EXIT_HARNESS = 0, 1, 2


class HarnessError(Exception):
    pass


class OutOfReach(Exception):
    """a public callee the harness attaches a stub / counter to no longer exists (refactored code): the job's obligations
    are inconclusive, never a verdict and not a harness error"""


def require(obj, name):
    if not hasattr(obj, name):
        raise OutOfReach("%s.%s does not exist in the current source: the harness cannot attach to it" % (getattr(obj, "__name__", obj), name))
    return getattr(obj, name)


# ------------------------------------------------------------------------------------------------
# patching the imported repo modules for the duration of an exploration


class Patches:
    """records attribute replacements and undoes them (stubs live only inside `with`)"""

    active = []
    _missing = object()

    def __init__(self):
        self.undo = []

    def set(self, obj, name, value):
        missing = Patches._missing
        old = obj.__dict__.get(name, missing) if hasattr(obj, "__dict__") else getattr(obj, name, missing)
        self.undo.append([obj, name, old, value])
        setattr(obj, name, value)

    @staticmethod
    def _put(obj, name, val):
        if val is Patches._missing:
            try:
                delattr(obj, name)
            except AttributeError:
                pass
        else:
            setattr(obj, name, val)

    def __enter__(self):
        Patches.active.append(self)
        return self

    def __exit__(self, *a):
        for obj, name, old, new in reversed(self.undo):
            self._put(obj, name, old)
        self.undo = []
        Patches.active.remove(self)
        return False


@contextlib.contextmanager
def unpatched():
    """the repository code exactly as imported: every active stub is lifted for the duration (replay)"""
    saved_ctx = symx.Ctx.cur
    symx.Ctx.cur = None
    acts = list(Patches.active)
    for p in reversed(acts):
        for obj, name, old, new in reversed(p.undo):
            Patches._put(obj, name, old)
    try:
        yield
    finally:
        for p in acts:
            for obj, name, old, new in p.undo:
                Patches._put(obj, name, new)
        symx.Ctx.cur = saved_ctx


# ------------------------------------------------------------------------------------------------


def _hash(s):
    return hashlib.sha1(s.encode()).hexdigest()[:12]


def model_value(m, v):
    x = m.eval(v, model_completion=True)
    if z3.is_rational_value(x):
        return x.numerator_as_long() / x.denominator_as_long()
    if z3.is_algebraic_value(x):
        a = x.approx(20)
        return a.numerator_as_long() / a.denominator_as_long()
    if z3.is_int_value(x):
        return float(x.as_long())
    raise ValueError("no numeric value for %s: %s" % (v, x))


def checked(s, timeout):
    """solver.check() with a hard watchdog: z3's own timeout is not honoured inside some nonlinear procedures"""
    import threading

    timer = threading.Timer(timeout + 3, s.ctx.interrupt)
    timer.daemon = True
    timer.start()
    try:
        return s.check()
    except z3.Z3Exception:
        return z3.unknown
    finally:
        timer.cancel()


class Job:
    """one unit of work of a property check; runs in a worker process and returns a plain dict"""

    def __init__(self, name, pid, tier, seed):
        self.name = name
        self.pid = pid
        self.tier = tier
        self.seed = seed
        self.rng = random.Random((seed, name).__repr__())
        self.results = []
        self.paths = {"returned": 0, "raised": 0, "cut": 0, "inconclusive": 0, "infeasible": 0}
        self.functions = set()
        self.stubs = set()
        self.assumptions = set()
        self.bounds = {}
        self.validation = {"points": 0, "mismatches": []}
        self.vacuity = {"checked": 0, "failed": []}
        self.solver_time = 0.0
        self.cross = {"checked": 0, "agree": 0, "timeout": 0, "disagree": []}
        self.samples = []
        self.errors = []
        self._traced = False

    # -- bookkeeping ----------------------------------------------------------------------------
    def stub(self, *names):
        self.stubs.update(names)

    def assume(self, *texts):
        self.assumptions.update(texts)

    def bound(self, **kw):
        self.bounds.update(kw)

    def explore(self, fn, assumptions=(), **kw):
        """symx.explore with path accounting; the first path is profiled for functions_encoded"""
        first = [not self._traced]
        self._traced = True

        def run():
            if first[0]:
                first[0] = False
                return self._profiled(fn)
            return fn()

        self.last_leaves = []
        for leaf in symx.explore(run, assumptions, **kw):
            self.paths[leaf.kind] += 1
            self.last_leaves.append((leaf.kind, type(leaf.value).__name__ if isinstance(leaf.value, BaseException) else "", str(leaf.value)[:120]))
            if leaf.kind == "inconclusive":
                self.errors.append("inconclusive path: %s" % (leaf.value,))
            if leaf.kind == "returned" and os.environ.get("VERIF_AUTO_TWIN", "1") != "0":
                # reachability witness of every returning leaf (the exploration keeps both sides of a branch whose feasibility query came
                # back `unknown`): a leaf whose path condition is unsatisfiable would discharge everything vacuously -- it is dropped
                t0 = time.time()
                r = self._solver(list(assumptions) + list(leaf.pc), 2).check()
                self.twin_time = getattr(self, "twin_time", 0.0) + time.time() - t0
                if r == z3.unsat:
                    self.paths["returned"] -= 1
                    self.paths["infeasible"] += 1
                    continue
                if r == z3.sat:
                    self.vacuity["checked"] += 1
            yield leaf

    def _profiled(self, fn):
        seen = self.functions
        root = os.path.join(REPO, "pyvaporation")

        def prof(frame, event, arg):
            if event == "call":
                co = frame.f_code
                if co.co_filename.startswith(root):
                    seen.add("%s:%s" % (os.path.relpath(co.co_filename, REPO), co.co_qualname))

        sys.setprofile(prof)
        try:
            return fn()
        finally:
            sys.setprofile(None)

    def trace(self, fn, *a, **k):
        """run a concrete call under the profiler (for functions executed outside explore)"""
        return self._profiled(lambda: fn(*a, **k))

    # -- solver queries -------------------------------------------------------------------------
    def _solver(self, conds, timeout):
        s = z3.Solver()
        s.set("timeout", int(timeout * 1000))
        s.add(*Pure.relevant_axioms(conds))
        s.add(*conds)
        return s

    def prove(self, oid, conds, neg, replay=None, inputs=None, timeout=30, congruence=None,
              known=None, extra_models=3, fallback=(), near=None, rewrite=(), sampler=None, pc=None):
        """obligation: conds => not neg.  unsat: discharged.  sat: candidate, reported only if
        `replay` (module:function, evaluated on the unpatched repo code) reproduces it.
        inputs: {name: z3 term} whose model values are handed to the replay function."""
        conds = list(conds)
        static = {k: v for k, v in (inputs or {}).items() if not isinstance(v, z3.ExprRef) and not hasattr(v, "t")}
        self._collect(replay, [dict(static, **dict(f)) for f in list(fallback)[:2]] or ([static] if static else []))
        negs = neg if isinstance(neg, (list, tuple)) else [neg]
        if congruence:
            # near=d: only applications within d definition levels of the goal (earlier steps are covered by lemmas)
            within = Pure.near([n for n in negs if isinstance(n, z3.ExprRef)], near) if near is not None else None
            conds += Pure.congruence(congruence, within)
        goal = z3.Or(*negs) if len(negs) != 1 else negs[0]
        if rewrite:
            # variables already shown equal to a term on this leaf are replaced by it (sound: the equality is a
            # discharged obligation under the same path condition); spares the solver the substitution
            rw = [(v, t) for v, t in rewrite]
            conds = [z3.substitute(c, *rw) for c in conds]
            goal = z3.substitute(goal, *rw)
        trivial = z3.is_false(z3.simplify(goal))
        s = self._solver(conds + [goal], timeout)
        t0 = time.time()
        r = checked(s, timeout)
        dt = time.time() - t0
        self.solver_time += dt
        res = {"id": oid, "time": round(dt, 4), "nontrivial": not trivial, "job": self.name, "solver": True}
        try:
            text = s.to_smt2()
        except Exception:
            text = ""
        res["hash"] = _hash(re.sub(r"![0-9]+", "!", text))
        if len(self.samples) < 2 and not trivial and len(text) < 6000:
            self.samples.append({"obligation": oid, "verdict": str(r), "smt2": text})
        if r == z3.unsat:
            res["status"] = "discharged"
            if self.tier == "thorough" and not trivial:
                self._cross(oid, text)
        elif r == z3.unknown:
            res["status"] = "inconclusive"
            res["detail"] = "solver: %s" % s.reason_unknown()
        else:
            res.update(self._candidate(oid, s, replay, inputs, extra_models, fallback, sampler, pc))
        if res["status"] == "violated" and known is not None:
            kf = known(res)
            if kf:
                res["status"] = "known"
                res["finding"] = kf
        self.results.append(res)
        return res["status"]

    def _on_path_points(self, inputs, sampler, pc, tries=4000, want=4):
        """concretisation search for the replay gate: realistic points (drawn by the obligation's sampler) that follow the path of the leaf
        the candidate lies on, decided by evaluating the leaf's path condition with the true exp / log"""
        from . import terms
        names = {k: t.decl().name() for k, t in (inputs or {}).items() if isinstance(t, z3.ExprRef) and z3.is_const(t) and not symx.is_num(t)}
        out = []
        for _ in range(tries):
            pt = sampler(self.rng)
            env = {n: pt[k] for k, n in names.items() if pt.get(k) is not None}
            try:
                if all(terms.evaluate(c, env) for c in pc):
                    out.append(pt)
                    if len(out) >= want:
                        break
            except Exception:
                continue
        return out

    def _candidate(self, oid, s, replay, inputs, extra_models, fallback=(), sampler=None, pc=None):
        """sat answer: extract inputs, replay on the real code; retry with further models"""
        if replay is None:
            return {"status": "inconclusive", "detail": "sat but no replay available (abstraction artefact possible)"}
        tried = []
        static = {k: v for k, v in (inputs or {}).items() if not isinstance(v, z3.ExprRef)}
        for attempt in range(1 + extra_models):
            m = s.model()
            vals = {}
            for k, term in (inputs or {}).items():
                if not isinstance(term, z3.ExprRef):
                    vals[k] = term  # static input (mode, kind, name ...)
                    continue
                try:
                    vals[k] = model_value(m, term)
                except Exception:
                    vals[k] = None
            out = run_replay(replay, vals)
            tried.append({"inputs": vals, "outcome": out.get("detail", "")[:300]})
            if not out["ok"]:
                return {"status": "violated", "replay": {"fn": replay, "inputs": out.get("inputs", vals)},
                        "detail": out.get("detail", "")}
            if attempt == 0:
                # the solver's values may be numerically degenerate (overflow, stub values no real callee
                # takes): evaluate the same assertion at realistic seeded points of the same obligation
                for fb in fallback:
                    fvals = dict(static)
                    fvals.update(fb)
                    out = run_replay(replay, fvals)
                    if not out["ok"]:
                        return {"status": "violated", "replay": {"fn": replay, "inputs": out.get("inputs", fvals)},
                                "detail": out.get("detail", "")}
                # hybrid points: a fallback point with the inputs that the path condition *pins* (c == 0, a unit tag, ...) taken
                # from the model -- a special-case branch is reproduced at a realistic point of that branch
                if fallback:
                    pinned = self._pinned(s, inputs, vals)
                    for fb in (list(fallback)[:2] if pinned else ()):
                        fvals = dict(static)
                        fvals.update(fb)
                        fvals.update(pinned)
                        out = run_replay(replay, fvals)
                        if not out["ok"]:
                            return {"status": "violated", "replay": {"fn": replay, "inputs": out.get("inputs", fvals)},
                                    "detail": out.get("detail", "")}
                if sampler is not None and pc:
                    for pt in self._on_path_points(inputs, sampler, pc):
                        fvals = dict(static)
                        fvals.update(pt)
                        out = run_replay(replay, fvals)
                        if not out["ok"]:
                            return {"status": "violated", "replay": {"fn": replay, "inputs": out.get("inputs", fvals)},
                                    "detail": out.get("detail", "")}
            # ask for a different model: move one input away from its current value (short budget)
            if not inputs:
                break
            blk = []
            for k, term in inputs.items():
                if isinstance(term, z3.ExprRef) and vals.get(k) is not None and not symx.is_num(term):
                    blk.append(z3.Or(term > symx.rv(vals[k]) * 2 + 1, term < symx.rv(vals[k]) / 2 - 1))
            if not blk:
                break
            s.set("timeout", 3000)
            s.add(self.rng.choice(blk))
            if s.check() != z3.sat:
                break
        return {"status": "inconclusive",
                "detail": "sat in the abstraction but not reproduced on the real code (%d models tried): %s"
                          % (len(tried), tried[0]["outcome"])}

    def _pinned(self, s, inputs, vals, limit=12):
        """inputs whose value is forced by the asserted conditions (term != model value is unsat); 1 s per input"""
        out = {}
        n = 0
        for k, term in (inputs or {}).items():
            if not isinstance(term, z3.ExprRef) or vals.get(k) is None or symx.is_num(term) or n >= limit:
                continue
            n += 1
            try:
                mv = s.model().eval(term, model_completion=True)
                s.push()
                s.set("timeout", 1000)
                s.add(term != mv)
                r = s.check()
                s.pop()
                if r == z3.unsat:
                    out[k] = vals[k]
                # restore a model for the caller
            except Exception:
                try:
                    s.pop()
                except Exception:
                    pass
        if n:
            s.set("timeout", 3000)
            if s.check() != z3.sat:
                return {}
        return out

    def _collect(self, replay, points):
        """real-code questions this job would replay (function + fixed inputs): exported so that tools/mkbattery.py can assemble the
        battery the driver falls back to when changed code leaves the reach of the lifted execution"""
        if not replay or not os.environ.get("VERIF_COLLECT_BATTERY"):
            return
        bag = self.__dict__.setdefault("battery", [])
        for pt in points:
            try:
                text = json.dumps(pt, sort_keys=True)
            except (TypeError, ValueError):
                continue
            if (replay, text) not in bag and len(bag) < 400:
                bag.append((replay, text))

    def refute_concretely(self, oid, replay, inputs, known=None):
        self._collect(replay, [inputs])
        """a violation established directly by running the real code (e.g. non-termination witness)"""
        out = run_replay(replay, inputs)
        res = {"id": oid, "time": 0.0, "nontrivial": True, "job": self.name, "hash": _hash(oid + repr(inputs)), "kind": "concrete_point"}
        if out["ok"]:
            res["status"] = "discharged"
        else:
            res.update({"status": "violated", "replay": {"fn": replay, "inputs": out.get("inputs", inputs)},
                        "detail": out.get("detail", "")})
            if known is not None:
                kf = known(res)
                if kf:
                    res["status"] = "known"
                    res["finding"] = kf
        self.results.append(res)
        return res["status"]

    def unreached(self, tag):
        """no leaf of the last exploration reached the assertion.  If the code left the reach of the engine (a proxy was forced
        into a C-level routine: Unsupported / TypeError), the obligations of this harness are inconclusive -- never a verdict
        and not a harness error; otherwise the harness is vacuous (exit 2)."""
        out = [l for l in getattr(self, "last_leaves", []) if l[0] == "inconclusive" or (l[0] == "raised" and l[1] in ("TypeError", "AttributeError"))]
        if out:
            self.record(tag + "/*", "inconclusive", "the code is out of reach of the lifted execution here (%s: %s)" % (out[0][1] or "Unsupported", out[0][2]), nontrivial=False)
        else:
            self.vacuity["failed"].append("%s: no path reached the assertion" % tag)

    def judge(self, oid, ok, detail, replay, inputs, nontrivial=True):
        """a structural fact observed on the lifted run (lengths, identities, tags): discharged if it holds, otherwise
        reported as a violation only when the replay on the real code reproduces it"""
        self._collect(replay, [inputs])
        if ok:
            return self.record(oid, "discharged", detail, nontrivial=nontrivial)
        out = run_replay(replay, inputs)
        if not out["ok"]:
            return self.record(oid, "violated", out.get("detail", detail), nontrivial=nontrivial, replay={"fn": replay, "inputs": out.get("inputs", inputs)})
        return self.record(oid, "inconclusive", "observed on the lifted run (%s) but not reproduced on the real code: %s" % (detail[:150], out.get("detail", "")[:100]),
                           nontrivial=nontrivial)

    def record(self, oid, status, detail="", nontrivial=True, **extra):
        if isinstance(extra.get("replay"), dict):
            self._collect(extra["replay"].get("fn"), [extra["replay"].get("inputs")])
        res = {"id": oid, "status": status, "detail": detail, "time": 0.0, "nontrivial": nontrivial,
               "job": self.name, "hash": _hash(oid + detail)}
        res.update(extra)
        self.results.append(res)
        return status

    def mark_known(self, oid, finding):
        for r in self.results:
            if r["id"] == oid and r["status"] == "violated":
                r["status"] = "known"
                r["finding"] = finding

    def congruent(self, conds, names, goal_exprs, near=1, rewrite=(), timeout=5):
        """congruence closure on demand: for pairs of applications of the same function near the goal, show (as a pure
        arithmetic query) that their arguments are equal on this leaf and return the resulting equalities of the values"""
        import itertools

        within = Pure.near([g for g in goal_exprs if isinstance(g, z3.ExprRef)], near)
        groups = {}
        for (v, name, args) in Pure.tab.values():
            if name in names and v.get_id() in within:
                groups.setdefault((name, len(args)), []).append((v, args))
        rw = [(v, t) for v, t in rewrite]
        base = [z3.substitute(c, *rw) for c in conds] if rw else list(conds)
        out = []
        for lst in groups.values():
            for (v1, a1), (v2, a2) in itertools.combinations(lst, 2):
                pre = z3.And(*[x == y for x, y in zip(a1, a2)])
                if rw:
                    pre = z3.substitute(pre, *rw)
                pre = z3.simplify(pre)
                if z3.is_false(pre):
                    continue
                if not z3.is_true(pre):
                    s = self._solver(base + [z3.Not(pre)], timeout)
                    t0 = time.time()
                    r = checked(s, timeout)
                    self.solver_time += time.time() - t0
                    if r != z3.unsat:
                        continue
                out.append(v1 == v2)
        return out

    def congruence_closure(self, conds, names=None, timeout=3, max_pairs=400):
        """bottom-up congruence closure over the purified applications (creation order): a pair of applications of the same
        function is merged when its arguments are identical after rewriting already merged variables, or when a small
        arithmetic query shows them equal under `conds`.  Returns (equalities, rewrite list); sound for unsat."""
        apps = [(v, name, args) for (v, name, args) in Pure.tab.values() if names is None or name in names]
        rep = {}  # var id -> representative var
        rw, eqs = [], []
        by = {}
        n = 0
        for v, name, args in apps:  # Pure.tab preserves creation order
            cur = [z3.simplify(z3.substitute(a, *rw)) if rw else a for a in args]
            for (v2, args2) in by.get((name, len(args)), []):
                if n >= max_pairs:
                    break
                same = all(x.eq(y) for x, y in zip(cur, args2))
                if not same:
                    pre = z3.simplify(z3.And(*[x == y for x, y in zip(cur, args2)])) if cur else z3.BoolVal(True)
                    if z3.is_false(pre):
                        continue
                    n += 1
                    sol = self._solver(list(conds) + eqs + [z3.Not(pre)], timeout)
                    t0 = time.time()
                    r = checked(sol, timeout)
                    self.solver_time += time.time() - t0
                    same = r == z3.unsat
                if same:
                    eqs.append(v == v2)
                    rw.append((v, v2))
                    break
            else:
                by.setdefault((name, len(args)), []).append((v, cur))
        return eqs, rw

    def feasible(self, conds, timeout=10):
        """is this leaf reachable at all under the extra constraints? (filter, not a vacuity verdict)"""
        return checked(self._solver(list(conds), timeout), timeout) != z3.unsat

    def twin_sat(self, what, conds, timeout=20):
        """vacuity twin: the assumptions/path must be satisfiable (an `assert False` there is violated)"""
        s = self._solver(list(conds), timeout)
        r = s.check()
        self.vacuity["checked"] += 1
        if r == z3.unsat:
            self.vacuity["failed"].append(what)
        return r

    @staticmethod
    def on_path(leaf, env, funcs=None):
        """does a translator-validation point follow this leaf's path?  (a leaf of a special-case branch is not validated
        at a point outside that branch)"""
        from . import terms
        try:
            return all(terms.evaluate(c, env, funcs) for c in leaf.pc)
        except Exception:
            return False

    def validated(self, what, ok, detail=""):
        """translator validation: real code on floats vs numeric value of the symbolic term"""
        self.validation["points"] += 1
        if not ok:
            self.validation["mismatches"].append("%s: %s" % (what, detail))

    def _cross(self, oid, text):
        """thorough tier: the same query through the cvc5 binary and /usr/bin/z3"""
        if not text or len(text) > 400000:
            return
        h = _hash(re.sub(r"![0-9]+", "!", text))
        seen = self.__dict__.setdefault("_cross_seen", set())
        if h in seen or len(seen) >= 60:
            return  # per job: at most 60 structurally distinct obligations go through the two external solvers
        seen.add(h)
        self.cross["checked"] += 1
        with tempfile.NamedTemporaryFile("w", suffix=".smt2", delete=False) as f:
            f.write("(set-logic QF_NRA)\n" + text + "\n")
            path = f.name
        try:
            for cmd in (["/usr/bin/z3", "-T:20", path], ["cvc5", "--tlimit=20000", path]):
                try:
                    out = subprocess.run(cmd, capture_output=True, text=True, timeout=40).stdout
                except subprocess.TimeoutExpired:
                    out = "timeout"
                first = out.strip().splitlines()[0] if out.strip() else ""
                if "(error" in out:
                    self.cross["timeout"] += 1
                elif first == "unsat":
                    self.cross["agree"] += 1
                elif first == "sat":
                    self.cross["disagree"].append("%s: %s says sat" % (oid, cmd[0]))
                else:
                    self.cross["timeout"] += 1
        finally:
            os.unlink(path)

    def export(self):
        d = dict(self.__dict__)
        d.pop("rng")
        d.pop("_cross_seen", None)
        d.pop("last_leaves", None)
        d["functions"] = sorted(self.functions)
        d["stubs"] = sorted(self.stubs)
        d["assumptions"] = sorted(self.assumptions)
        d["feas_queries"] = Stats.feas_queries
        d["feas_time"] = round(Stats.feas_time, 3)
        d["feas_unknown"] = Stats.feas_unknown
        return d


# ------------------------------------------------------------------------------------------------
# replay on the unpatched repository code


def run_replay(spec, inputs):
    """spec = 'module:function'; the function evaluates the violated assertion on the real code with
    floats and returns {'ok': bool, 'detail': str}.  ok=True means *not* reproduced."""
    mod, fn = spec.split(":")
    f = getattr(importlib.import_module(mod), fn)
    try:
        import attr as _attr
        _attr.validators.set_disabled(False)  # a lifted run of changed code may have left attrs' global switch flipped: replays start clean
    except Exception:
        pass
    try:
        with unpatched():
            out = f(dict(inputs))
    except symx.Unsupported as e:
        # a proxy reached the replay: state that the lifted run of (changed) code left behind in this process -- a shared default list,
        # a module-level cache.  The real code is then asked once more in a process of its own.
        sub = _replay_in_fresh_process(spec, inputs)
        return sub if sub is not None else {"ok": True, "detail": "replay error: %r" % (e,)}
    except Exception as e:
        return {"ok": True, "detail": "replay raised %s: %s" % (type(e).__name__, e)}
    if not isinstance(out, dict):
        out = {"ok": bool(out), "detail": ""}
    return out


def _replay_in_fresh_process(spec, inputs):
    if os.environ.get("VERIF_IN_REPLAY_PROCESS"):
        return None
    code = ("import sys, json; sys.path.insert(0, %r); sys.path.insert(0, %r); from vf import core; "
            "print('@@' + json.dumps(core.run_replay(%r, json.loads(sys.stdin.read())), default=str))" % (REPO, VERIF, spec))
    try:
        r = subprocess.run([sys.executable, "-c", code], input=json.dumps(inputs, default=float), capture_output=True, text=True, timeout=600,
                           env=dict(os.environ, VERIF_IN_REPLAY_PROCESS="1"), cwd=VERIF)
        for line in r.stdout.splitlines():
            if line.startswith("@@"):
                out = json.loads(line[2:])
                out["detail"] = str(out.get("detail", "")) + " [replayed in a fresh process]"
                return out
    except Exception:
        pass
    return None


def run_battery(entries, timeout=900):
    """[(spec, inputs-json-text)] -> [(spec, inputs, result)]; all of it in ONE fresh process (no state of any lifted run)"""
    code = ("import sys, json; sys.path.insert(0, %r); sys.path.insert(0, %r); from vf import core\n"
            "for spec, text in json.loads(sys.stdin.read()):\n"
            "    inp = json.loads(text)\n"
            "    print('@@' + json.dumps([spec, inp, core.run_replay(spec, inp)], default=str), flush=True)\n" % (REPO, VERIF))
    out = []
    try:
        r = subprocess.run([sys.executable, "-c", code], input=json.dumps(entries), capture_output=True, text=True, timeout=timeout,
                           env=dict(os.environ, VERIF_IN_REPLAY_PROCESS="1"), cwd=VERIF)
        for line in r.stdout.splitlines():
            if line.startswith("@@"):
                spec, inp, res = json.loads(line[2:])
                out.append((spec, inp, res if isinstance(res, dict) else {"ok": True}))
    except Exception:
        pass
    return out


def close(a, b, rel=1e-9, abs_=1e-12):
    if a is None or b is None:
        return a is b
    a, b = float(a), float(b)
    if a != a or b != b:
        return False
    return abs(a - b) <= max(abs_, rel * max(abs(a), abs(b)))


# ------------------------------------------------------------------------------------------------
# known findings


def load_findings():
    p = os.path.join(VERIF, "known_findings.json")
    if not os.path.exists(p):
        return {"findings": [], "fixed": []}
    return json.load(open(p))


def finding_matcher(pid):
    """returns known(res) -> finding text or None: a listed finding suppresses only violations of the
    obligation (call site / relation) it names"""
    entries = [f for f in load_findings().get("findings", []) if f["property"] == pid and f.get("match", "obligation") == "obligation"]

    def known(res):
        for f in entries:
            if re.fullmatch(f["obligation"], res["id"]):
                return f["what"]
        return None

    return known


def characterised_finding(pid, oid):
    """a finding whose deviation is characterised by the harness itself (match == 'characterised'):
    returns the entry if /verif/known_findings.json lists one for this obligation"""
    for f in load_findings().get("findings", []):
        if f["property"] == pid and f.get("match") == "characterised" and re.fullmatch(f["obligation"], oid):
            return f
    return None

"""Second engine for the numpy-free raise / clamp contracts (thorough tier of C14, C15, C19): CrossHair
(symbolic execution of the real Python with z3, per path under a time budget) on PEP316 contracts generated into
a scratch file.  'Confirmed over all paths' discharges; a counterexample is replayed concretely before it is
reported; everything else is inconclusive."""
import ast
import os
import re
import shutil
import subprocess
import sys
import tempfile

from .core import REPO


def run_contracts(job, tag, source, timeout=30, replay="vf.xhair:replay_call"):
    job.stub("CrossHair 0.0.110 as second engine (per-condition timeout %ds); floats are CrossHair's symbolic floats" % timeout)
    d = tempfile.mkdtemp(prefix="xhair_", dir=os.environ.get("TMPDIR"))
    path = os.path.join(d, "contracts_%s.py" % re.sub(r"\W", "_", tag))
    try:
        with open(path, "w") as f:
            f.write(source)
        funcs = {}
        for n in ast.parse(source).body:
            if isinstance(n, ast.FunctionDef):
                for line in range(n.lineno, n.end_lineno + 1):
                    funcs[line] = n.name
        env = dict(os.environ, PYTHONPATH=REPO + os.pathsep + os.environ.get("PYTHONPATH", ""))
        try:
            out = subprocess.run([sys.executable, "-m", "crosshair", "check", "--report_all", "--per_condition_timeout", str(timeout), path],
                                 capture_output=True, text=True, timeout=timeout * 40 + 120, env=env, cwd=d)
            text = out.stdout + out.stderr
        except subprocess.TimeoutExpired:
            text = ""
        seen = set()
        for line in text.splitlines():
            m = re.match(r".*?:(\d+): (info|error): (.*)", line)
            if not m:
                continue
            name = funcs.get(int(m.group(1)))
            if name is None or name in seen:
                continue
            seen.add(name)
            kind, msg = m.group(2), m.group(3)
            oid = "%s/crosshair/%s" % (tag, name)
            if kind == "info" and msg.startswith("Confirmed over all paths"):
                job.record(oid, "discharged", "CrossHair: confirmed over all paths")
            elif kind == "error":
                call = re.search(r"when calling (.*?)(?: \(which|$)", msg)
                job.judge(oid, False, "CrossHair counterexample: %s" % msg[:200], replay, {"source": source, "call": call.group(1) if call else None, "function": name})
            else:
                job.record(oid, "inconclusive", "CrossHair: %s" % msg[:120])
        for name in set(funcs.values()) - seen:
            job.record("%s/crosshair/%s" % (tag, name), "inconclusive", "CrossHair produced no verdict (timeout)")
    finally:
        shutil.rmtree(d, ignore_errors=True)


def replay_call(inp):
    """execute the counterexample call concretely against the real code and evaluate the contract's postcondition"""
    if not inp.get("call"):
        return {"ok": True, "detail": "no concrete call"}
    ns = {}
    exec(compile(inp["source"], "<contracts>", "exec"), ns)
    fn = ns[inp["function"]]
    doc = fn.__doc__ or ""
    post = re.search(r"post:\s*(.*)", doc)
    raises = re.search(r"raises:\s*(.*)", doc)
    allowed = tuple(eval(x.strip(), {"__builtins__": __builtins__}) for x in raises.group(1).split(",")) if raises else ()
    try:
        value = eval(inp["call"], dict(ns, nan=float("nan"), inf=float("inf")))
    except allowed:
        return {"ok": True, "detail": "raises a declared exception"}
    except Exception as e:
        return {"ok": False, "detail": "%s raised undeclared %s: %s" % (inp["call"], type(e).__name__, e), "inputs": inp}
    ok = bool(eval(post.group(1), dict(ns, _=value, __return__=value))) if post else True
    return {"ok": ok, "detail": "%s returned %r, contract `%s` is %s" % (inp["call"], value, post.group(1) if post else "", ok), "inputs": inp}

"""Concrete runs of the unpatched repository code on floats (replay gate and translator validation)."""
import math

import pyvaporation as pv
from pyvaporation.conditions.conditions import TemperatureProgram
from pyvaporation.diffusion_curve import DiffusionCurve, DiffusionCurveSet
from pyvaporation.experiments import IdealExperiment, IdealExperiments
from pyvaporation.membrane import Membrane
from pyvaporation.mixtures import Mixtures
from pyvaporation.mixtures import mixture as mixmod
from pyvaporation.pervaporation.pervaporation import Pervaporation

_CURVE_CACHE = {}


def mixture_of(inp):
    mix = getattr(Mixtures, inp.get("mixture") or "H2O_EtOH")
    if inp.get("frost"):
        # the same mixture with the first component's vapour pressure given by a Frost equation (constants of the library's own tests)
        import attr
        from pyvaporation.utils import VaporPressureConstants
        c1 = attr.evolve(mix.first_component, vapour_pressure_constants=VaporPressureConstants(a=16.5191, b=-3937.6553, c=-190231.9062, type="frost"))
        mix = attr.evolve(mix, first_component=c1)
    return mix


def membrane_for(mix, P1=0.036091, P2=0.0000282, Ea1=19944.0, Ea2=110806.0, Texp=323.15, two_points=False):
    exps = [
        IdealExperiment(name="m", temperature=Texp, component=mix.first_component, permeance=pv.Permeance(P1), activation_energy=Ea1),
        IdealExperiment(name="m", temperature=Texp, component=mix.second_component, permeance=pv.Permeance(P2), activation_energy=Ea2),
    ]
    return Membrane(ideal_experiments=IdealExperiments(experiments=exps), name="replay-membrane")


def curve_set(mix, n_curves=2, basis="weight", temps=(313.15, 333.15), slope=(1.5, -0.8)):
    """composition dependent synthetic curves: P_i(x, T) = P_i0 * exp(s_i x) * Arrhenius"""
    curves = []
    for T in temps[:n_curves]:
        xs = [0.1, 0.3, 0.5, 0.7, 0.9]
        comps = [mixmod.Composition(x, "weight") for x in xs]
        if basis == "molar":
            comps = [c.to_molar(mix) for c in comps]
        perms = [(pv.Permeance(0.03 * math.exp(slope[0] * x) * math.exp(-2400.0 * (1 / T - 1 / 323.15))),
                  pv.Permeance(0.002 * math.exp(slope[1] * x) * math.exp(-6000.0 * (1 / T - 1 / 323.15)))) for x in xs]
        curves.append(DiffusionCurve(mixture=mix, membrane_name="replay-membrane", feed_temperature=T, feed_compositions=comps, permeances=perms))
    return DiffusionCurveSet(name="replay-set", diffusion_curves=curves)


def conditions_of(inp, mix):
    prog = None
    if inp.get("program"):
        coefs = [inp.get("tc%d" % i) for i in range(6) if inp.get("tc%d" % i) is not None]
        prog = TemperatureProgram(coefficients=coefs, type=inp["program"])
    return pv.Conditions(membrane_area=inp["A"], initial_feed_temperature=inp["T0"], initial_feed_amount=inp["m0"],
                         initial_feed_composition=mixmod.Composition(inp["x0"], inp.get("basis", "weight")),
                         permeate_temperature=inp.get("Tp"), permeate_pressure=inp.get("Pp"), temperature_program=prog)


def process(inp, mix=None, membrane=None, curves=None):
    """run one of the four process models on the real code"""
    mix = mix or mixture_of(inp)
    membrane = membrane or membrane_for(mix, **{k: inp[k] for k in ("P1", "P2", "Ea1", "Ea2") if inp.get(k) is not None})
    pz = Pervaporation(membrane, mix)
    cond = conditions_of(inp, mix)
    kind = inp["kind"]
    kw = dict(conditions=cond, number_of_steps=int(inp["N"]), delta_hours=inp["dt"], precision=inp.get("prec") or 5e-5,
              calculation_type=inp.get("model", "NRTL"))
    if kind.startswith("non_ideal"):
        if curves is None:
            key = (mix.name, inp.get("n_curves", 2), inp.get("curve_basis", "weight"))
            if key not in _CURVE_CACHE:
                _CURVE_CACHE[key] = curve_set(mix, inp.get("n_curves", 2), inp.get("curve_basis", "weight"))
            curves = _CURVE_CACHE[key]
        kw["diffusion_curve_set"] = curves
        if inp.get("initial_permeances"):
            kw["initial_permeances"] = (pv.Permeance(inp.get("P0_1", 0.05)), pv.Permeance(inp.get("P0_2", 0.001)))
        kw.update(n_first=1, n_second=1)
        if len(curves.diffusion_curves) > 1:
            kw.update(m_first=1, m_second=1)
    return getattr(pz, kind)(**kw), cond, pz


def admissible_process(inp):
    try:
        ok = inp["A"] > 0 and 273 < inp["T0"] < 400 and inp["m0"] > 0 and 0 < inp["x0"] < 1 and inp["dt"] > 0
        if inp.get("Tp") is not None:
            ok = ok and 120 <= inp["Tp"] <= inp["T0"]
        if inp.get("Pp") is not None:
            ok = ok and 0 <= inp["Pp"] <= 100
        return bool(ok)
    except (TypeError, KeyError):
        return False


PROC_FALLBACK = [
    {"mixture": "H2O_EtOH", "A": 0.04155, "T0": 333.15, "m0": 12.0, "x0": 0.94, "dt": 0.5, "prec": 5e-5, "Tp": 293.15, "Pp": 0.6,
     "tc0": 333.15, "tc1": -1.5, "tc2": 0.01, "tc3": -0.02, "tc4": 0.003},
    {"mixture": "H2O_iPOH", "A": 0.5, "T0": 350.0, "m0": 3.0, "x0": 0.3, "dt": 0.25, "prec": 1e-4, "Tp": 283.15, "Pp": 2.0,
     "tc0": 350.0, "tc1": -0.8, "tc2": 0.002, "tc3": 0.01, "tc4": -0.001},
]


def proc_fallback(mode, program=None):
    out = []
    for f in PROC_FALLBACK:
        f = dict(f)
        if mode != "ptemp":
            f.pop("Tp")
        if mode != "ppres":
            f.pop("Pp")
        if program == "exponential":
            f.update(tc0=f["T0"], tc1=-0.004, tc2=0.001, tc3=-0.0002, tc4=0.00003)
        elif program == "logarithmic":
            f.update(tc0=100.0, tc1=math.exp(f["T0"] / 100.0), tc2=-0.3, tc3=0.02, tc4=-0.001)
        elif program is None:
            for k in ("tc0", "tc1", "tc2", "tc3", "tc4"):
                f.pop(k)
        out.append(f)
    return out

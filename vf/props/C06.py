"""C06 -- results do not depend on which component is called first."""
import copy
import warnings

import z3

import pyvaporation as pv
from pyvaporation.mixtures import Mixtures
from pyvaporation.mixtures import mixture as mixmod
from pyvaporation.pervaporation.pervaporation import Pervaporation
from pyvaporation import utils as pvutils

from ..symx import lift, SReal, real, UF, Pure
from .. import build, flux, proc, realrun, terms, core
from ..core import Patches, close

EXPLANATION = ("Every computation is executed on a symbolic mixture and on its relabelled twin (components exchanged together with interaction "
               "parameters, composition p -> 1-p in the same basis, permeances, experiments) inside one exploration.  The activity models run "
               "for real (ln gamma compared as rational functions with EXP atoms).  Above them the thermodynamic callees are uninterpreted "
               "functions keyed by component *identity* (the relabelling-symmetric contract that the first group of obligations establishes "
               "for the real models), so any asymmetry found there belongs to the pervaporation layer: flux solver (real loop), ideal curve and "
               "metrics, ideal process models (mass, temperature, heats, compositions), separation factor and selectivity (must invert).")
OUTSIDE = ("flux-loop exits after more than K iterations; process steps above the bound; non-ideal models (the statement lists ideal curves and "
           "ideal process models); float rounding")
R_ = "vf.props.C06:concrete"


def swapped_mixture(mix):
    """the relabelled twin of a mixture object (symbolic or float)"""
    n, u = mix.nrtl_params, mix.uniquac_params
    n2 = None if n is None else pv.NRTLParameters(g12=n.g21, g21=n.g12, alpha12=n.alpha12 if n.alpha21 is None else n.alpha21,
                                                  alpha21=None if n.alpha21 is None else n.alpha12, a12=n.a21, a21=n.a12)
    u2 = None
    if u is not None:
        u2 = copy.copy(u)
        u2.alpha_12, u2.alpha_21, u2.beta_12, u2.beta_21 = u.alpha_21, u.alpha_12, u.beta_21, u.beta_12
    return pv.Mixture(name=mix.name, first_component=mix.second_component, second_component=mix.first_component, nrtl_params=n2, uniquac_params=u2)


def concrete(inp):
    """a real computation and its relabelled twin"""
    T, x = inp.get("T") or 333.15, inp.get("x")
    if x is None or not 0 < x < 1 or not 273 < T < 400:
        T, x = 333.15, 0.3
    bad = []
    names = [inp["mixture"]] if inp.get("mixture") else ["H2O_EtOH", "MeOH_MTBE"]
    for name in names:
        mix = getattr(Mixtures, name)
        if inp.get("g12") is not None:
            from .C04 import _fmix
            mix = _fmix(dict(inp, mixture=name))
        sw = swapped_mixture(mix)
        what = inp.get("what", "all")
        for model in ([inp["model"]] if inp.get("model") else ["NRTL", "UNIQUAC"]):
            if what in ("activity", "all"):
                g = mixmod.calculate_activity_coefficients(T, mix, mixmod.Composition(x, "molar"), model)
                h = mixmod.calculate_activity_coefficients(T, sw, mixmod.Composition(1 - x, "molar"), model)
                if not (close(g[0], h[1], 1e-9) and close(g[1], h[0], 1e-9)):
                    bad.append("%s %s activity coefficients (%r, %r), relabelled twin (%r, %r)" % (name, model, float(g[0]), float(g[1]), float(h[1]), float(h[0])))
            if what in ("layer", "all") and model == "NRTL":
                for Tp, Pp in ((None, None), (293.15, None), (None, 2.0)):
                    mem = realrun.membrane_for(mix)
                    mems = realrun.membrane_for(sw, P1=0.0000282, P2=0.036091, Ea1=110806.0, Ea2=19944.0)
                    a, b = Pervaporation(mem, mix), Pervaporation(mems, sw)
                    try:
                        da = a.ideal_diffusion_curve(T, [mixmod.Composition(x, "weight")], Tp, Pp, 1e-9)
                        db = b.ideal_diffusion_curve(T, [mixmod.Composition(1 - x, "weight")], Tp, Pp, 1e-9)
                    except ValueError:
                        da = db = None
                    if da is not None:
                        pa_, pb_ = [float(p.value) for p in da.permeances[0]], [float(p.value) for p in db.permeances[0]]
                        if not (close(pa_[0], pb_[1], 1e-6) and close(pa_[1], pb_[0], 1e-6)):
                            bad.append("%s ideal curve (Tp=%r, Pp=%r) permeances %r, relabelled twin %r" % (name, Tp, Pp, pa_, pb_[::-1]))
                        if not close(da.get_selectivity[0] * db.get_selectivity[0], 1.0, 1e-6):
                            bad.append("%s ideal curve (Tp=%r, Pp=%r) selectivity %r, relabelled %r (product should be 1)" % (name, Tp, Pp, float(da.get_selectivity[0]), float(db.get_selectivity[0])))
                        if not close(da.get_separation_factor[0] * db.get_separation_factor[0], 1.0, 1e-6):
                            bad.append("%s ideal curve (Tp=%r, Pp=%r) separation factor %r, relabelled %r" % (name, Tp, Pp, float(da.get_separation_factor[0]), float(db.get_separation_factor[0])))
                        for i_ in (0, 1):
                            if not close(da.partial_fluxes[0][i_], db.partial_fluxes[0][1 - i_], 1e-7):
                                bad.append("%s ideal curve (Tp=%r, Pp=%r) flux%d %r, relabelled twin %r" % (name, Tp, Pp, i_ + 1, float(da.partial_fluxes[0][i_]), float(db.partial_fluxes[0][1 - i_])))
                    # permeances handed to the solver by the caller, tagged with a unit: whatever the solver does with the tag, it does it per component
                    for u in ([inp["units"]] if inp.get("units") else ["kg/(m2*h*kPa)", "SI", "GPU"]):
                        try:
                            ua = a.calculate_partial_fluxes(T, mixmod.Composition(x, "weight"), 1e-9, Tp, Pp, pv.Permeance(0.03, u), pv.Permeance(0.002, u))
                            ub = b.calculate_partial_fluxes(T, mixmod.Composition(1 - x, "weight"), 1e-9, Tp, Pp, pv.Permeance(0.002, u), pv.Permeance(0.03, u))
                        except ValueError:
                            continue
                        if not (close(ua[0], ub[1], 1e-7) and close(ua[1], ub[0], 1e-7)):
                            bad.append("%s fluxes with supplied permeances tagged %s: %r vs relabelled %r" % (name, u, tuple(map(float, ua)), (float(ub[1]), float(ub[0]))))
                    ja = a.calculate_partial_fluxes(T, mixmod.Composition(x, "weight"), 1e-9, Tp, Pp)
                    jb = b.calculate_partial_fluxes(T, mixmod.Composition(1 - x, "weight"), 1e-9, Tp, Pp)
                    if not (close(ja[0], jb[1], 1e-7) and close(ja[1], jb[0], 1e-7)):
                        bad.append("%s fluxes %r vs relabelled %r" % (name, tuple(map(float, ja)), (float(jb[1]), float(jb[0]))))
                    sa = a.calculate_separation_factor(T, mixmod.Composition(x, "weight"), Tp, Pp, 1e-9)
                    sb = b.calculate_separation_factor(T, mixmod.Composition(1 - x, "weight"), Tp, Pp, 1e-9)
                    if not close(sa * sb, 1.0, 1e-6):
                        bad.append("%s separation factor %r, relabelled %r (product should be 1)" % (name, float(sa), float(sb)))
                    for kind in ("ideal_isothermal_process", "ideal_non_isothermal_process"):
                        i = {"kind": kind, "A": 0.05, "T0": T, "m0": 4.0, "x0": x, "dt": 0.3, "N": 3, "Tp": Tp, "Pp": Pp}
                        ma = realrun.process(i, mix=mix, membrane=mem)[0]
                        mb = realrun.process(dict(i, x0=1 - x), mix=sw, membrane=mems)[0]
                        for k in range(3):
                            for nm, p, q in (("feed mass", ma.feed_mass[k], mb.feed_mass[k]), ("temperature", ma.feed_temperature[k], mb.feed_temperature[k]),
                                             ("evaporation heat", ma.feed_evaporation_heat[k], mb.feed_evaporation_heat[k]),
                                             ("condensation heat", ma.permeate_condensation_heat[k], mb.permeate_condensation_heat[k]),
                                             ("composition", ma.feed_compositions[k].p, 1 - mb.feed_compositions[k].p)):
                                if p is None and q is None:
                                    continue
                                if not close(p, q, 1e-6):
                                    bad.append("%s %s step %d %s: %r vs relabelled twin %r" % (name, kind, k, nm, float(p), float(q)))
    return {"ok": not bad, "detail": "; ".join(bad[:3]), "inputs": inp}


# ------------------------------------------------------------------------------------------------
# the activity models themselves


def activity(job, model, variant):
    job.bound(no_unrolling_bound="rational identities with EXP atoms")
    job.assume("0 < x < 1, 273 < T < 400", "EXP > 0, LOG split over positive factors")
    T, x = real("T"), real("x")
    if model == "NRTL":
        mix = build.sym_mixture(two_alpha=(variant == "two_alpha"), with_a=True)
        extra = []
    else:
        mix = build.lift_obj(getattr(Mixtures, variant))
        up = mix.uniquac_params
        up.alpha_12, up.alpha_21, up.beta_12, up.beta_21, up.z = real("ua12"), real("ua21"), real("ub12"), real("ub21"), real("uz")
        extra = [up.z.t > 0]
    sw = swapped_mixture(mix)
    dom = build.domain_T(T) + build.domain_open01(x) + extra
    inputs = {"what": "activity", "model": model, "T": T.t, "x": x.t, "mixture": variant if model == "UNIQUAC" else None}
    fb = [{"what": "activity", "model": model, "T": 333.15, "x": 0.3, "mixture": variant if model == "UNIQUAC" else "H2O_EtOH"}]
    if model == "NRTL":
        n = mix.nrtl_params
        inputs.update({"mixture": "H2O_EtOH", "g12": n.g12.t, "g21": n.g21.t, "al12": n.alpha12.t, "al21": n.alpha21.t if n.alpha21 is not None else None,
                       "a12": n.a12.t, "a21": n.a21.t})
        fb += [{"what": "activity", "model": "NRTL", "T": 323.15, "x": 0.4, "mixture": "H2O_MeOH"},
               {"what": "activity", "model": "NRTL", "T": 300.0, "x": 0.7, "mixture": "H2O_EtOH", "g12": 3000.0, "g21": -800.0, "al12": 0.2, "al21": 0.45, "a12": 0.4, "a21": -0.3}]
    tag = "C06/activity/%s/%s" % (model, variant)
    got = 0
    for leaf in job.explore(lambda: (mixmod.calculate_activity_coefficients(T, mix, build.comp(x, "molar"), model),
                                     mixmod.calculate_activity_coefficients(T, sw, build.comp(1 - x, "molar"), model)), dom):
        if leaf.kind != "returned":
            continue
        got += 1
        (g1, g2), (h1, h2) = leaf.value
        cs = dom + leaf.conds()
        l = [terms.ln(lift(v)) for v in (g1, g2, h1, h2)]
        for name, a, b in (("gamma_first_of_twin_is_gamma_second", l[2], l[1]), ("gamma_second_of_twin_is_gamma_first", l[3], l[0])):
            cons, nf = terms.zero_query(a - b)
            st = job.prove("%s/%s" % (tag, name), cs + cons[:-1], cons[-1], R_, inputs, fallback=fb, congruence=["EXP", "LOG"], timeout=60)
            if st == "violated" and model == "UNIQUAC":
                entry = core.characterised_finding("C06", "%s/%s" % (tag, name))
                if entry is not None:
                    from .C04 import _uniquac_known_deviation
                    d_orig = _uniquac_known_deviation(mix, T, x)
                    d_twin = _uniquac_known_deviation(sw, T, SReal(1 - x.t))
                    a2 = a - (d_twin if name.startswith("gamma_second") else 0)
                    b2 = b - (d_orig if name.startswith("gamma_first") else 0)
                    cons2, _ = terms.zero_query(a2 - b2)
                    st2 = job.prove("%s/%s_modulo_listed_deviation" % (tag, name), cs + cons2[:-1], cons2[-1], R_, inputs, fallback=fb,
                                    congruence=["EXP", "LOG"], timeout=60)
                    if st2 == "discharged":
                        job.mark_known("%s/%s" % (tag, name), entry["what"])
    if not got:
        job.unreached(tag)


# ------------------------------------------------------------------------------------------------
# identity-keyed stubs (relabelling-symmetric contract of the thermodynamic callees)


def install_identity_stubs(pt, mix, job):
    c1, c2 = mix.first_component, mix.second_component
    Component = type(c1)
    job.stub("GAMMA_c(T, mole fraction of component c1): activity coefficient of *component* c, independent of the labelling (shown for the real "
             "models by C06/activity/*)", "PSAT_c(T) > 0, HVAP_c(T), CP_c(T), COOL_c(t0,t1) keyed by component identity", "PERM_c(T) >= 0")

    def idx(c):
        return 1 if c is c1 else 2

    def stub_gamma(temperature, mixture, composition, calculation_type="NRTL"):
        if composition.type == "weight":
            composition = composition.to_molar(mixture)
        xa = composition.p if mixture.first_component is c1 else 1 - composition.p
        ga = SReal(UF("GAMMAc1_%s" % calculation_type, temperature, xa, pos=True))
        gb = SReal(UF("GAMMAc2_%s" % calculation_type, temperature, xa, pos=True))
        return (ga, gb) if mixture.first_component is c1 else (gb, ga)

    pt.set(mixmod, "calculate_activity_coefficients", stub_gamma)
    pt.set(Component, "get_vapor_pressure", lambda self, t: SReal(UF("PSAT%d" % idx(self), t, pos=True)))
    pt.set(Component, "get_vaporisation_heat", lambda self, t: SReal(UF("HVAP%d" % idx(self), t)))
    pt.set(Component, "get_specific_heat", lambda self, t: SReal(UF("CP%d" % idx(self), t)))
    pt.set(Component, "get_cooling_heat", lambda self, t0, t1: SReal(UF("COOL%d" % idx(self), t0, t1)))


CG = ["GAMMAc1_NRTL", "GAMMAc2_NRTL", "GAMMAc1_UNIQUAC", "GAMMAc2_UNIQUAC", "PSAT1", "PSAT2", "PERM1", "PERM2", "HVAP1", "HVAP2", "CP1", "CP2", "COOL1", "COOL2"]


def install_flux_identity_stub(pt, c1):
    """FLUX keyed by component identity: the relabelling-symmetric contract shown for the real solver by C06/*/flux_solver"""

    def stub_flux(self_, *args, **kw):
        ba = proc._SIG.bind(self_, *args, **kw)
        ba.apply_defaults()
        ar = ba.arguments
        first = self_.mixture.first_component is c1
        comp = ar["composition"].to_weight(self_.mixture)
        p = comp.p if first else 1 - comp.p
        P1, P2 = ar["first_component_permeance"], ar["second_component_permeance"]
        if P1 is None or P2 is None:
            P1 = self_.membrane.get_permeance(ar["feed_temperature"], self_.mixture.first_component)
            P2 = self_.membrane.get_permeance(ar["feed_temperature"], self_.mixture.second_component)
        P1, P2 = P1.value, P2.value
        if not first:
            P1, P2 = P2, P1
        sym = [ar["feed_temperature"], p, ar["precision"], P1, P2] + [v for v in (ar["permeate_temperature"], ar["permeate_pressure"]) if v is not None]
        name = "%s_%s%s" % (ar["calculation_type"], "T" if ar["permeate_temperature"] is not None else "", "P" if ar["permeate_pressure"] is not None else "")
        j = (SReal(UF("FLUXc1_" + name, *sym)), SReal(UF("FLUXc2_" + name, *sym)))
        return j if first else (j[1], j[0])

    pt.set(Pervaporation, "calculate_partial_fluxes", stub_flux)


def solver_and_curve(job, mode, model, basis, K, units=None):
    job.bound(flux_iterations_K=K, curve_points=1)
    job.assume("Composition validator as assumption", "domain of C02")
    fs = flux.FluxSetup(mode, model)
    sw = swapped_mixture(fs.mix)
    mem = build.StubMembrane(fs.mix)
    pa, pb = build.pervaporation(fs.mix, mem), build.pervaporation(sw, mem)
    dom = fs.domain()
    inputs = dict(fs.inputs(), what="layer")
    fb = [{"what": "layer", "T": 333.15, "x": 0.3, "mixture": m} for m in ("H2O_EtOH", "MeOH_MTBE")]
    tag = "C06/%s/%s/%s" % (mode, model, basis) + ("/supplied_in_" + units if units else "")
    if units:
        inputs = dict(inputs, units=units)
        fb = [dict(f, units=units) for f in fb]
    # (A) the real flux solver and its relabelled twin, permeate iterates named and chained
    with Patches() as pt:
        install_identity_stubs(pt, fs.mix, job)
        build.assume_validator(pt)
        cnt = flux.LoopCounter(pt, K)
        it = flux.IterateNames(pt)
        Pure.canon_args = True

        def run():
            cnt.reset()
            it.reset()
            ja = pa.calculate_partial_fluxes(fs.T, build.comp(fs.x, basis), fs.prec, fs.Tp, fs.Pp, build.perm(fs.P1, units), build.perm(fs.P2, units), model)
            ya = list(it.names)
            cnt.reset()
            it.reset()
            jb = pb.calculate_partial_fluxes(fs.T, build.comp(1 - fs.x, basis), fs.prec, fs.Tp, fs.Pp, build.perm(fs.P2, units), build.perm(fs.P1, units), model)
            ppa = mixmod.get_partial_pressures(fs.T, fs.mix, build.comp(fs.x, basis), model)
            ppb = mixmod.get_partial_pressures(fs.T, sw, build.comp(1 - fs.x, basis), model)
            return ja, jb, ya, list(it.names), ppa, ppb

        got = 0
        for leaf in job.explore(run, dom, timeout_ms=300):
            if leaf.kind != "returned":
                continue
            got += 1
            ja, jb, ya, yb, ppa, ppb = leaf.value
            cs = dom + leaf.conds()
            lemmas = []
            st = job.prove(tag + "/partial_pressures", cs, [lift(ppa[0]) != lift(ppb[1]), lift(ppa[1]) != lift(ppb[0])], R_, inputs, fallback=fb, congruence=CG, timeout=30)
            if st == "discharged":
                lemmas += [lift(ppa[0]) == lift(ppb[1]), lift(ppa[1]) == lift(ppb[0])]
            rw = []
            for j in range(min(len(ya), len(yb))):
                lemmas += job.congruent(cs + lemmas, CG, [lift(yb[j]), lift(ya[j])], near=1, rewrite=rw)
                st = job.prove("%s/flux_solver/iterate%d" % (tag, j), cs + lemmas, lift(yb[j]) != 1 - lift(ya[j]), R_, inputs, fallback=fb, congruence=CG,
                               timeout=30, near=1, rewrite=rw)
                if st == "discharged":
                    lemmas.append(lift(yb[j]) == 1 - lift(ya[j]))
                    if z3.is_const(lift(yb[j])) and not build.is_num(lift(yb[j])):
                        rw.append((lift(yb[j]), 1 - lift(ya[j])))
            if len(ya) != len(yb):
                job.prove(tag + "/flux_solver/same_exit", cs + lemmas, z3.BoolVal(True), R_, inputs, fallback=fb, congruence=CG, timeout=30, near=1, rewrite=rw)
                continue
            lemmas += job.congruent(cs + lemmas, CG, [lift(ja[0]), lift(ja[1]), lift(jb[0]), lift(jb[1])], near=1, rewrite=rw)
            job.prove(tag + "/flux_solver", cs + lemmas, [lift(ja[0]) != lift(jb[1]), lift(ja[1]) != lift(jb[0])], R_, inputs, fallback=fb,
                      congruence=CG, timeout=40, near=1, rewrite=rw)
        if not got:
            job.unreached(tag)
    if units:
        return  # the helpers and the curve take no permeances from the caller
    # (B) helpers, one-point curve and metrics on top of the identity-keyed flux function
    with Patches() as pt:
        install_identity_stubs(pt, fs.mix, job)
        build.assume_validator(pt)
        install_flux_identity_stub(pt, fs.mix.first_component)
        Pure.canon_args = True

        def run2():
            o = {}
            o["sa"] = pa.calculate_separation_factor(fs.T, build.comp(fs.x, basis), fs.Tp, fs.Pp, fs.prec, model)
            o["sb"] = pb.calculate_separation_factor(fs.T, build.comp(1 - fs.x, basis), fs.Tp, fs.Pp, fs.prec, model)
            o["pca"] = pa.calculate_permeate_composition(fs.T, build.comp(fs.x, basis), fs.prec, fs.Tp, fs.Pp, model)
            o["pcb"] = pb.calculate_permeate_composition(fs.T, build.comp(1 - fs.x, basis), fs.prec, fs.Tp, fs.Pp, model)
            da = pa.ideal_diffusion_curve(fs.T, [build.comp(fs.x, basis)], fs.Tp, fs.Pp, fs.prec, model)
            db = pb.ideal_diffusion_curve(fs.T, [build.comp(1 - fs.x, basis)], fs.Tp, fs.Pp, fs.prec, model)
            o["da"], o["db"] = da, db
            o["sfa"], o["sfb"], o["sela"], o["selb"] = da.get_separation_factor, db.get_separation_factor, da.get_selectivity, db.get_selectivity
            return o

        got = 0
        for leaf in job.explore(run2, dom, timeout_ms=300, max_paths=200):
            if leaf.kind != "returned":
                continue
            o = leaf.value
            cs = dom + leaf.conds()
            if not job.feasible(cs):
                continue
            got += 1
            da, db = o["da"], o["db"]
            lem = []
            st = job.prove(tag + "/curve_fluxes", cs, [lift(da.partial_fluxes[0][0]) != lift(db.partial_fluxes[0][1]), lift(da.partial_fluxes[0][1]) != lift(db.partial_fluxes[0][0])],
                           R_, inputs, fallback=fb, congruence=CG, timeout=30)
            if st == "discharged":
                lem = [lift(da.partial_fluxes[0][0]) == lift(db.partial_fluxes[0][1]), lift(da.partial_fluxes[0][1]) == lift(db.partial_fluxes[0][0])]
            job.prove(tag + "/permeate_composition", cs + lem, lift(o["pca"].p) != 1 - lift(o["pcb"].p), R_, inputs, fallback=fb, congruence=CG, timeout=30)
            st = job.prove(tag + "/curve_permeances", cs + lem, [lift(da.permeances[0][0].value) != lift(db.permeances[0][1].value),
                                                                 lift(da.permeances[0][1].value) != lift(db.permeances[0][0].value)], R_, inputs, fallback=fb, congruence=CG, timeout=30)
            if st == "discharged":
                lem += [lift(da.permeances[0][0].value) == lift(db.permeances[0][1].value), lift(da.permeances[0][1].value) == lift(db.permeances[0][0].value)]
            job.prove(tag + "/separation_factor_inverts", cs + lem, lift(o["sa"]) * lift(o["sb"]) != 1, R_, inputs, fallback=fb, congruence=CG, timeout=30)
            job.prove(tag + "/curve_separation_factor_inverts", cs + lem, lift(o["sfa"][0]) * lift(o["sfb"][0]) != 1, R_, inputs, fallback=fb, congruence=CG, timeout=30)
            job.prove(tag + "/curve_selectivity_inverts", cs + lem, lift(o["sela"][0]) * lift(o["selb"][0]) != 1, R_, inputs, fallback=fb, congruence=CG, timeout=30)
        if not got:
            job.unreached(tag)


def processes(job, kind, mode, tier):
    N = 2 if tier == "quick" else 3
    job.bound(process_steps_N=N)
    job.stub("FLUX keyed by component identity: FLUX_c(T, fraction of c1, precision, permeate condition, P_c1, P_c2) -- the relabelling-symmetric "
             "contract shown for the real flux solver by C06/*/flux_solver")
    for basis in ("weight", "molar"):
        a = proc.ProcSetup(kind, mode, basis, None, N)
        sw = swapped_mixture(a.mix)
        b = proc.ProcSetup(kind, mode, basis, None, N, mix=sw)
        for nm in ("dt", "prec", "A", "T0", "m0", "Tp", "Pp", "membrane"):
            setattr(b, nm, getattr(a, nm))
        b.pz = build.pervaporation(sw, a.membrane)
        b.cond = pv.Conditions(membrane_area=a.A, initial_feed_temperature=a.T0, initial_feed_amount=a.m0,
                               initial_feed_composition=build.comp(1 - a.x0, basis), permeate_temperature=a.Tp, permeate_pressure=a.Pp)
        dom = a.domain()
        inputs = dict(a.inputs(), what="layer", x=a.x0.t, T=a.T0.t)
        fb = [{"what": "layer", "T": 333.15, "x": 0.3, "mixture": "H2O_EtOH"}]
        tag = "C06/process/%s/%s/%s" % (proc.SHORT[kind], mode, basis)
        c1 = a.mix.first_component
        with Patches() as pt:
            install_identity_stubs(pt, a.mix, job)
            build.assume_validator(pt)
            build.assume_permeance_clamp(pt)

            install_flux_identity_stub(pt, c1)
            Pure.canon_args = True

            got = 0
            def run():
                ma, mb = a.run(), b.run()
                return ma, mb, (ma.get_separation_factor, mb.get_separation_factor, ma.get_selectivity, mb.get_selectivity)

            for leaf in job.explore(run, dom, timeout_ms=100):
                if leaf.kind != "returned":
                    continue
                got += 1
                ma, mb, (sfa, sfb, sela, selb) = leaf.value
                cs = dom + leaf.conds()
                cg = sorted(set(CG) | {n for (_, n, _) in Pure.tab.values() if n.startswith("FLUXc")})
                lemmas = []
                for k in range(N):
                    groups = [("composition", [(lift(ma.feed_compositions[k].p), 1 - lift(mb.feed_compositions[k].p))]),
                              ("mass", [(lift(ma.feed_mass[k]), lift(mb.feed_mass[k]))]),
                              ("temperature", [(lift(ma.feed_temperature[k]), lift(mb.feed_temperature[k]))]),
                              ("permeances", [(lift(ma.permeances[k][0].value), lift(mb.permeances[k][1].value)), (lift(ma.permeances[k][1].value), lift(mb.permeances[k][0].value))]),
                              ("fluxes", [(lift(ma.partial_fluxes[k][0]), lift(mb.partial_fluxes[k][1])), (lift(ma.partial_fluxes[k][1]), lift(mb.partial_fluxes[k][0]))]),
                              ("permeate_composition", [(lift(ma.permeate_composition[k].p), 1 - lift(mb.permeate_composition[k].p))]),
                              ("evaporation_heat", [(lift(ma.feed_evaporation_heat[k]), lift(mb.feed_evaporation_heat[k]))])]
                    if ma.permeate_condensation_heat[k] is not None and mb.permeate_condensation_heat[k] is not None:
                        groups.append(("condensation_heat", [(lift(ma.permeate_condensation_heat[k]), lift(mb.permeate_condensation_heat[k]))]))
                    for name, eqs in groups:
                        st = job.prove("%s/step%d/%s" % (tag, k, name), cs + lemmas, [p != q for p, q in eqs], R_, inputs, fallback=fb, congruence=cg, timeout=40)
                        if st == "discharged":
                            lemmas += [p == q for p, q in eqs]
                job.prove(tag + "/separation_factor_inverts", cs + lemmas, [lift(sfa[k]) * lift(sfb[k]) != 1 for k in range(N)], R_, inputs, fallback=fb, timeout=40)
                job.prove(tag + "/selectivity_inverts", cs + lemmas, [lift(sela[k]) * lift(selb[k]) != 1 for k in range(N)], R_, inputs, fallback=fb, timeout=40)
            if not got:
                job.unreached(tag)


JOB_TIMEOUT = {"quick": 500, "thorough": 2400}


def jobs(tier):
    K = 1 if tier == "quick" else 2
    js = [("activity_NRTL_one_alpha", "activity", {"model": "NRTL", "variant": "one_alpha"}),
          ("activity_NRTL_two_alpha", "activity", {"model": "NRTL", "variant": "two_alpha"})]
    from .C04 import BUILTIN
    js += [("activity_UNIQUAC_%s" % n, "activity", {"model": "UNIQUAC", "variant": n}) for n in BUILTIN]
    for mode in flux.MODES:
        for model, basis in (("NRTL", "weight"), ("UNIQUAC", "molar")) if tier == "quick" else [(m, b) for m in ("NRTL", "UNIQUAC") for b in ("weight", "molar")]:
            js.append(("layer_%s_%s_%s" % (mode, model, basis), "solver_and_curve", {"mode": mode, "model": model, "basis": basis, "K": K}))
    js.append(("layer_vac_NRTL_weight_SI", "solver_and_curve", {"mode": "vac", "model": "NRTL", "basis": "weight", "K": K, "units": "SI"}))
    js.append(("layer_ppres_NRTL_weight_GPU", "solver_and_curve", {"mode": "ppres", "model": "NRTL", "basis": "weight", "K": K, "units": "GPU"}))
    for kind in proc.KINDS[:2]:
        for mode in proc.MODES:
            js.append(("proc_%s_%s" % (proc.SHORT[kind], mode), "processes", {"kind": kind, "mode": mode, "tier": tier}))
    return js

"""C20 -- modelling calls are pure: no hidden state, arguments untouched, repeatable."""
import itertools
import sys
import types

import attr
import numpy
import z3

import pyvaporation as pv
from pyvaporation.diffusion_curve import DiffusionCurve, DiffusionCurveSet
from pyvaporation.experiments import IdealExperiment, IdealExperiments
from pyvaporation.membrane import Membrane
from pyvaporation.mixtures import mixture as mixmod
from pyvaporation.optimizer import optimizer as opt
from pyvaporation.optimizer.optimizer import Measurement, Measurements, PervaporationFunction
from pyvaporation.pervaporation.pervaporation import Pervaporation

from ..symx import lift, SReal, real, UF, Pure
from .. import build, flux, proc, realrun
from ..core import Patches, close
from .C16 import FitStub

EXPLANATION = ("Frame-condition form of the history property: every modelling entry point is executed on shared symbolic argument objects "
               "(a real Membrane with symbolic experiments, mixture, curve set, conditions, initial permeances, measurements); a deep snapshot "
               "(object graph with identities, attrs fields, list lengths, numpy buffers, z3 term ids) of ALL argument objects and of the "
               "module-level state of every pyvaporation module (built-in components / mixtures, column lists, class-level defaults) is "
               "taken before the call and compared on every explored leaf.  Histories: X; Y; X again -- the repeated call must return equal "
               "terms (the thermodynamic / optimiser stubs are functions of their arguments, so equality fails exactly when state leaked).")
OUTSIDE = ("bit-identity of floats across calls is argued from purity + determinism of the executed Python, not measured; scipy internals; "
           "saving / loading (C17); step counts above the bound")
R_ = "vf.props.C20:concrete"


# ------------------------------------------------------------------------------------------------
# deep snapshots


def snapshot(root, _seen=None, _depth=0):
    """structural fingerprint of an object graph: identities, types, field values (z3 term ids for proxies)"""
    seen = {} if _seen is None else _seen

    def go(o, d):
        if o is None or isinstance(o, (bool, int, float, str, bytes)):
            return ("v", type(o).__name__, o)
        if isinstance(o, SReal):
            return ("S", id(o), o.t.get_id())
        if isinstance(o, z3.ExprRef):
            return ("z", o.get_id())
        if id(o) in seen:
            return ("ref", seen[id(o)])
        seen[id(o)] = len(seen)
        me = seen[id(o)]
        if d > 12:
            return ("deep", me, type(o).__name__)
        if isinstance(o, (list, tuple)):
            return (type(o).__name__, me, id(o), tuple(go(x, d + 1) for x in o))
        if isinstance(o, dict):
            return ("dict", me, id(o), tuple((repr(k), go(v, d + 1)) for k, v in sorted(o.items(), key=lambda kv: repr(kv[0]))))
        if isinstance(o, (set, frozenset)):
            return ("set", me, id(o), tuple(sorted(repr(x) for x in o)))
        if isinstance(o, numpy.ndarray):
            return ("ndarray", me, id(o), o.shape, str(o.dtype), tuple(go(x, d + 1) for x in o.ravel().tolist()) if o.dtype == object else o.tobytes())
        if attr.has(type(o)):
            return ("attrs", me, id(o), type(o).__name__, tuple((f.name, go(getattr(o, f.name), d + 1)) for f in attr.fields(type(o))))
        if isinstance(o, (types.FunctionType, types.BuiltinFunctionType, types.MethodType, type, types.ModuleType)):
            return ("callable", getattr(o, "__qualname__", repr(o)))
        if hasattr(o, "__dict__"):
            return ("obj", me, id(o), type(o).__name__, tuple((k, go(v, d + 1)) for k, v in sorted(vars(o).items()) if not k.startswith("__")))
        return ("opaque", type(o).__name__, repr(o)[:80])

    return go(root, _depth)


def module_state():
    """the module-level state the property names: built-in components and mixtures (class attributes holding repo objects) and
    the constant lists of the modules (column names, method lists).  Other module-level containers (a cache, say) are not
    compared here -- state leaking through them shows up as a repeated call returning something else."""
    out = {}

    def is_const_list(v):
        return isinstance(v, (list, tuple)) and all(isinstance(x, str) for x in v)

    for name, mod in sorted(sys.modules.items()):
        if not name.startswith("pyvaporation") or mod is None:
            continue
        for k, v in sorted(vars(mod).items()):
            if k.startswith("__"):
                continue
            if isinstance(v, type):
                if getattr(v, "__module__", "").startswith("pyvaporation"):
                    for ck, cv in sorted(vars(v).items()):
                        if ck.startswith("__"):
                            continue
                        if attr.has(type(cv)) or is_const_list(cv) or isinstance(cv, (str, int, float)):
                            out["%s.%s.%s" % (name, k, ck)] = cv
                continue
            if attr.has(type(v)) or is_const_list(v) or isinstance(v, (int, float)) and not isinstance(v, bool):
                out["%s.%s" % (name, k)] = v
            elif isinstance(v, dict) and v and all(isinstance(a, str) and isinstance(b, (int, float, str)) for a, b in v.items()):
                out["%s.%s" % (name, k)] = tuple(sorted(v.items()))  # a constant table (unit factors, say)
    # interpreter-wide switches a modelling call could flip: attrs' global "run validators" flag guards every Composition built afterwards
    out["attr.validators.disabled"] = bool(attr.validators.get_disabled())
    return out


def snap_modules():
    return tuple((k, snapshot(v)) for k, v in module_state().items())


def diff(a, b, path="", out=None):
    out = [] if out is None else out
    if len(out) > 5:
        return out
    if type(a) != type(b) or (isinstance(a, tuple) and len(a) != len(b)):
        out.append("%s: %s -> %s" % (path, str(a)[:80], str(b)[:80]))
    elif isinstance(a, tuple):
        for i, (x, y) in enumerate(zip(a, b)):
            diff(x, y, "%s/%s" % (path, a[3] if len(a) > 3 and isinstance(a[3], str) and i == 4 else i), out)
    elif a != b:
        out.append("%s: %r -> %r" % (path, a, b))
    return out


# ------------------------------------------------------------------------------------------------
# shared argument objects and entry points


class World:
    def __init__(self, mode, n_curves=2):
        # curve points are given as mole fractions (the models convert them: any in-place conversion shows in the snapshot)
        self.ps = proc.ProcSetup("non_ideal_non_isothermal_process", mode, "molar", None, 2, n_curves=n_curves, initial_permeances=True, curve_basis="molar")
        ps = self.ps
        c1, c2 = ps.mix.first_component, ps.mix.second_component
        exps = []
        for ci, c in ((1, c1), (2, c2)):
            for j in range(2):
                exps.append(IdealExperiment(name="m", temperature=real("Tex%d_%d" % (ci, j)), component=c, permeance=build.perm(real("Pex%d_%d" % (ci, j))),
                                            activation_energy=real("Eex%d_%d" % (ci, j))))
        self.membrane = Membrane(name="m", ideal_experiments=IdealExperiments(experiments=exps), diffusion_curve_sets=[ps.curves])
        self.pz = Pervaporation(self.membrane, ps.mix)
        self.meas = Measurements(data=[Measurement(x=real("mx%d" % i), t=real("mt%d" % i), p=real("mp%d" % i)) for i in range(3)])
        self.comps = [build.comp(ps.x0, "molar"), build.comp(real("x1"), "weight")]
        self.dx = real("dx")
        self.args = {"membrane": self.membrane, "mixture": ps.mix, "pervaporation": self.pz, "curve_set": ps.curves, "conditions": ps.cond,
                     "initial_permeances": ps.P0, "measurements": self.meas, "compositions": self.comps}

    def domain(self):
        ps = self.ps
        d = ps.domain() + [self.dx.t > 0, self.dx.t < 1, real("x1").t > 0, real("x1").t < 1]
        exps = self.membrane.ideal_experiments.experiments
        for e in exps:
            d += [e.temperature.t > 273, e.temperature.t < 400, e.permeance.value.t > 0]
        for a, b in itertools.combinations(exps, 2):
            if a.component is b.component:
                d.append(a.temperature.t != b.temperature.t)  # distinct experiment temperatures: the regression is determined
        for m in self.meas.data:
            d += [m.x.t >= 0, m.x.t <= 1, m.t.t > 273, m.t.t < 400, m.p.t >= 0]
        for cv in ps.curves.diffusion_curves:
            for c in cv.feed_compositions:
                d += [c.p.t > 0, c.p.t < 1]
        return d

    def entries(self, fresh_object=False):
        ps, pz = self.ps, self.pz
        if fresh_object:
            # a new Pervaporation object over the same membrane and mixture: whatever the long-lived one remembers, this one does not
            pz = build.pervaporation(ps.mix, self.pz.membrane)
        T, prec, Tp, Pp = ps.T0, ps.prec, ps.Tp, ps.Pp
        nk = dict(n_first=1, n_second=1, m_first=1 if ps.n_curves > 1 else None, m_second=1 if ps.n_curves > 1 else None)

        def nums(o):
            """numeric content of a result, as a flat list of terms"""
            if isinstance(o, (SReal, int, float)):
                return [o]
            if isinstance(o, (list, tuple, numpy.ndarray)):
                return [v for x in o for v in nums(x)]
            if isinstance(o, pv.Composition):
                return [o.p]
            if isinstance(o, pv.Permeance):
                return [o.value]
            if isinstance(o, PervaporationFunction):
                return [o.alpha] + list(o.a) + list(o.b)
            if isinstance(o, Measurements):
                return [v for m in o.data for v in (m.x, m.t, m.p)]
            if isinstance(o, DiffusionCurve):
                return nums(o.partial_fluxes) + nums(o.permeances) + nums(o.feed_compositions)
            if isinstance(o, pv.ProcessModel):
                return (nums(o.partial_fluxes) + nums(o.permeances) + nums(o.feed_compositions) + nums(o.feed_mass) + nums(list(o.feed_temperature))
                        + nums(o.feed_evaporation_heat) + [h for h in o.permeate_condensation_heat if h is not None] + (nums(list(o.permeance_fits)) if o.permeance_fits else []))
            return []

        E = {
            "flux_solver": lambda: pz.calculate_partial_fluxes(T, self.comps[0], prec, Tp, Pp),
            # the same question under the other activity model, a rejected question, and the public driving-force helper at a state of its own
            "flux_solver_uniquac": lambda: pz.calculate_partial_fluxes(T, self.comps[0], prec, Tp, Pp, calculation_type="UNIQUAC"),
            "flux_solver_rejected": lambda: _rejected(lambda: pz.calculate_partial_fluxes(T, self.comps[0], prec, real("Tp_both"), real("Pp_both"))),
            "driving_force": lambda: pz.get_partial_fluxes_from_permeate_composition(build.perm(real("Pd1")), build.perm(real("Pd2")), build.comp(real("yd"), "weight"),
                                                                                      self.comps[1], real("Td"), Tp, Pp),
            "permeate_composition": lambda: pz.calculate_permeate_composition(T, self.comps[1], prec, Tp, Pp),
            "separation_factor": lambda: pz.calculate_separation_factor(T, self.comps[0], Tp, Pp, prec),
            "ideal_curve": lambda: pz.ideal_diffusion_curve(T, self.comps, Tp, Pp, prec),
            "non_ideal_curve": lambda: pz.non_ideal_diffusion_curve(ps.curves, T, self.comps[0], self.dx, 1, Tp, Pp, ps.P0, prec, "NRTL", 1, 1, nk["m_first"], nk["m_second"], True),
            "fit": lambda: opt.fit(self.meas, n=1, m=1, include_zero=True, component_index=1),
            "find_best_fit": lambda: opt.find_best_fit(self.meas, include_zero=True, component_index=0, n=1, m=0),
            "measurements_first": lambda: Measurements.from_diffusion_curves_first(ps.curves),
            "measurements_second": lambda: Measurements.from_diffusion_curve_second(ps.curves.diffusion_curves[0]),
            "permeance": lambda: self.membrane.get_permeance(T, ps.mix.first_component),
            "selectivity": lambda: self.membrane.get_ideal_selectivity(T, ps.mix.first_component, ps.mix.second_component),
        }
        for kind in proc.KINDS:
            kw = dict(conditions=ps.cond, number_of_steps=2, delta_hours=ps.dt, precision=prec)
            if kind.startswith("non_ideal"):
                kw.update(diffusion_curve_set=ps.curves, initial_permeances=ps.P0, include_zero=True, **nk)
            E[proc.SHORT[kind]] = (lambda kind=kind, kw=kw: getattr(pz, kind)(**kw))
        return E, nums


def _rejected(call):
    """a question the library must reject (both permeate temperature and pressure): the rejection is part of the history, not its end"""
    try:
        call()
    except ValueError:
        return ()
    return ("accepted",)


def _real_world(inp):
    """fresh real objects and the entry points as closures over them"""
    mix = realrun.mixture_of(inp)
    mem = realrun.membrane_for(mix)
    curves = realrun.curve_set(mix, 2, "molar")
    pz = Pervaporation(mem, mix)
    cond = pv.Conditions(membrane_area=0.05, initial_feed_temperature=330.0, initial_feed_amount=3.0, initial_feed_composition=pv.Composition(0.3, "molar"), permeate_temperature=293.15)
    meas = Measurements.from_diffusion_curves_first(curves)
    P0 = (pv.Permeance(0.05), pv.Permeance(0.001))
    # the composition list handed to the curve entry point is an argument like any other; it spans the closed interval (pure ends included)
    comps = [pv.Composition(0.0, "weight"), pv.Composition(0.3, "molar"), pv.Composition(0.5, "weight"), pv.Composition(1.0, "weight")]
    args = {"membrane": mem, "mixture": mix, "curves": curves, "conditions": cond, "measurements": meas, "P0": P0, "compositions": comps}
    fl = lambda f: [f.alpha] + list(f.a) + list(f.b)
    calls = {
        "flux_solver": lambda: pz.calculate_partial_fluxes(333.15, pv.Composition(0.3, "molar"), 5e-5, 293.15, None),
        "flux_solver_uniquac": lambda: pz.calculate_partial_fluxes(333.15, pv.Composition(0.3, "molar"), 5e-5, 293.15, None, calculation_type="UNIQUAC"),
        "flux_solver_rejected": lambda: _rejected(lambda: pz.calculate_partial_fluxes(333.15, pv.Composition(0.3, "molar"), 5e-5, 293.15, 1.0)),
        "driving_force": lambda: pz.get_partial_fluxes_from_permeate_composition(pv.Permeance(0.04), pv.Permeance(0.003), pv.Composition(0.8, "weight"), pv.Composition(0.6, "weight"),
                                                                                 318.0, 293.15, None),
        "permeate_composition": lambda: [pz.calculate_permeate_composition(333.15, pv.Composition(0.5, "weight"), 5e-5, 293.15, None).p],
        "separation_factor": lambda: [pz.calculate_separation_factor(333.15, pv.Composition(0.3, "molar"), 293.15, None, 5e-5)],
        "permeance": lambda: [mem.get_permeance(341.0, mix.first_component).value, mem.get_permeance(341.0, mix.second_component).value],
        "ideal_curve": lambda: [tuple(f) for f in pz.ideal_diffusion_curve(333.15, [pv.Composition(0.3, "molar"), pv.Composition(0.5, "weight")], 293.15).partial_fluxes],
        "ideal_curve_closed_interval": lambda: [tuple(f) for f in pz.ideal_diffusion_curve(333.15, comps, 293.15).partial_fluxes],
        "fit": lambda: fl(opt.fit(meas, n=1, m=1, include_zero=True, component_index=1)),
        "find_best_fit": lambda: fl(opt.find_best_fit(meas, include_zero=True, component_index=0, n=1, m=1)),
        "ideal_iso": lambda: pz.ideal_isothermal_process(2, 0.2, cond).feed_mass,
        "ideal_noniso": lambda: pz.ideal_non_isothermal_process(cond, 2, 0.2).feed_mass,
        "nonideal_iso": lambda: pz.non_ideal_isothermal_process(cond, curves, 2, 0.2, initial_permeances=P0, n_first=1, n_second=1, m_first=1, m_second=1, include_zero=True).feed_mass,
        "nonideal_noniso": lambda: pz.non_ideal_non_isothermal_process(cond, curves, 2, 0.2, initial_permeances=P0, n_first=1, n_second=1, m_first=1, m_second=1, include_zero=True).feed_mass,
        "non_ideal_curve": lambda: [tuple(f) for f in pz.non_ideal_diffusion_curve(curves, 330.0, pv.Composition(0.3, "molar"), 0.05, 1, 293.15, None, P0, 5e-5, "NRTL", 1, 1, 1, 1, True).partial_fluxes],
        "measurements_first": lambda: [v for m_ in Measurements.from_diffusion_curves_first(curves) for v in (m_.x, m_.t, m_.p)],
    }
    return args, calls


def concrete_history(inp):
    """Y; X; Y; X on one set of real objects: both X return bit for bit what X returns on fresh objects, and nothing reachable from the
    shared arguments, the built-in objects or the interpreter-wide switches has changed"""
    import warnings
    x, y = inp.get("x"), inp.get("y")
    num = lambda r: repr(numpy.asarray(r, dtype=float).tolist())
    bad = []
    attr.validators.set_disabled(False)  # the replay starts from the interpreter's initial switches
    with warnings.catch_warnings():
        warnings.simplefilter("ignore")
        _, fresh = _real_world(inp)
        if x not in fresh or y not in fresh:
            return {"ok": True, "detail": "no real-code twin of %s / %s" % (x, y), "inputs": inp}
        mods = snap_modules()
        want = num(fresh[x]())
        args, calls = _real_world(inp)
        before = snapshot(args)
        calls[y]()
        first = num(calls[x]())
        calls[y]()
        third = num(calls[x]())
        if first != want or third != want:
            bad.append("%s after [%s, %s] on shared objects returns %s, on fresh objects %s" % (x, x, y, third[:120], want[:120]))
        d = diff(before, snapshot(args)) + diff(mods, snap_modules())
        if d:
            bad.append("the history %s; %s; %s changed shared arguments / module state / interpreter switches: %s" % (x, y, x, "; ".join(d[:2])))
    attr.validators.set_disabled(False)
    return {"ok": not bad, "detail": "; ".join(bad[:2]), "inputs": inp}


def concrete(inp):
    """real code, real optimiser: arguments deeply unchanged and a repeated call returns identical numbers"""
    import copy
    import warnings
    args, calls = _real_world(inp)
    mix, mem, curves, cond = args["mixture"], args["membrane"], args["curves"], args["conditions"]
    pz = Pervaporation(mem, mix)
    curves1 = realrun.curve_set(mix, 1, "weight")
    calls.update({
        "non_ideal_curve_single": lambda: [tuple(f) for f in pz.non_ideal_diffusion_curve(curves1, 330.0, pv.Composition(0.3, "weight"), 0.05, 1, None, None, None, 5e-5, "NRTL", 1, 1).partial_fluxes],
        "nonideal_noniso_single": lambda: pz.non_ideal_non_isothermal_process(cond, curves1, 2, 0.2, n_first=1, n_second=1).feed_mass,
        "nonideal_iso_single": lambda: pz.non_ideal_isothermal_process(cond, curves1, 2, 0.2, n_first=1, n_second=1).feed_mass,
    })
    want = inp.get("entry")
    bad = []
    attr.validators.set_disabled(False)
    with warnings.catch_warnings():
        warnings.simplefilter("ignore")
        for name, f in calls.items():
            if want and want not in (name, "all") and not name.startswith(str(want)[:6]):
                continue
            before, mods = snapshot(args), snap_modules()
            r1 = f()
            d = diff(before, snapshot(args)) + diff(mods, snap_modules())
            if d:
                bad.append("%s changed its arguments / module state: %s" % (name, "; ".join(d[:2])))
            r2 = f()
            if repr(numpy.asarray(r1, dtype=float).tolist()) != repr(numpy.asarray(r2, dtype=float).tolist()):
                bad.append("%s: a repeated call returns other numbers" % name)
    return {"ok": not bad, "detail": "; ".join(bad[:3]), "inputs": inp}


def frame(job, mode, n_curves, names):
    job.bound(process_steps_N=2, curve_points=2, measurement_points=3, experiments_per_component=2, history_length=3)
    job.stub("GAMMA/PSAT/HVAP/CP/COOL as uninterpreted functions", "scipy.optimize.minimize -> FIT(objective)", "numpy.linalg.lstsq -> normal equations (single-curve models regress the activation energy)")
    job.assume("Composition validator / Permeance clamp as assumptions (raising runs end the call; purity is asserted on returning leaves and on raising leaves alike)")
    w = World(mode, n_curves)
    dom = w.domain()
    E, nums = w.entries()
    with Patches() as pt:
        build.stub_thermo(pt, w.ps.mix, heats=True)
        build.assume_validator(pt)
        build.assume_permeance_clamp(pt)
        stub = FitStub(job)
        pt.set(opt.optimize, "minimize", stub)
        from .C12 import _lstsq_stub
        pt.set(numpy.linalg, "lstsq", _lstsq_stub(job))
        cnt = flux.LoopCounter(pt, 1)
        from pyvaporation.pervaporation.pervaporation import Pervaporation as P_
        orig_cpf = P_.calculate_partial_fluxes

        def cpf(self, *a, **k):
            cnt.reset()
            return orig_cpf(self, *a, **k)

        if names[0] in ("flux_solver", "permeate_composition", "separation_factor", "permeance"):
            pt.set(P_, "calculate_partial_fluxes", cpf)  # the real solver (loop bound K = 1)
        else:
            # curves and processes: the flux calculation is an uninterpreted function of its arguments (its own purity is
            # the subject of the flux_solver group)
            w.ps.install(pt, validator="real", flux="stub", heats=False, fit="stub", clamp="real")
            job.stub("FLUX(...) for calculate_partial_fluxes inside curves / processes")
        for name in names:
            f = E[name]
            tag = "C20/%s/c%d/%s" % (mode, n_curves, name)
            state = {}

            def run():
                attr.validators.set_disabled(False)  # every explored path starts from the interpreter's initial switches
                state["before"] = snapshot(w.args)
                state["mods"] = snap_modules()
                r1 = f()
                state["mid"] = snapshot(w.args)
                r2 = f()
                return r1, r2

            n = 0
            for leaf in job.explore(run, dom, timeout_ms=100, max_paths=300):
                if leaf.kind not in ("returned", "raised"):
                    continue
                n += 1
                if n > 40:
                    break
                after, mods = snapshot(w.args), snap_modules()
                d = diff(state["before"], after) + diff(state["mods"], mods)
                job.judge("%s/leaf%d/arguments_and_module_state_untouched" % (tag, n), not d, "; ".join(d[:2]), R_, {"entry": name})
                if leaf.kind == "returned":
                    r1, r2 = leaf.value
                    a, b = nums(r1), nums(r2)
                    if len(a) != len(b):
                        job.record("%s/leaf%d/repeatable" % (tag, n), "violated", "result shapes differ", replay={"fn": R_, "inputs": {"entry": name}})
                    elif a:
                        cg = sorted({nm for (_, nm, _) in Pure.tab.values()})
                        job.prove("%s/leaf%d/repeatable" % (tag, n), dom + leaf.conds(), [lift(p) != lift(q) for p, q in zip(a, b)], R_, {"entry": name},
                                  fallback=[{"entry": name}], timeout=20, congruence=cg)
            if n == 0:
                job.vacuity["failed"].append(tag)


def histories(job, mode, pairs):
    """X; Y; X again: the second X equals the first"""
    job.bound(history_length=3)
    w = World(mode, 2)
    dom = w.domain()
    E, nums = w.entries()
    with Patches() as pt:
        build.stub_thermo(pt, w.ps.mix, heats=True)
        build.assume_validator(pt)
        build.assume_permeance_clamp(pt)
        stub = FitStub(job)
        pt.set(opt.optimize, "minimize", stub)
        from .C12 import _lstsq_stub
        pt.set(numpy.linalg, "lstsq", _lstsq_stub(job))
        cnt = flux.LoopCounter(pt, 1)
        from pyvaporation.pervaporation.pervaporation import Pervaporation as P_
        orig_cpf = P_.calculate_partial_fluxes
        if any(nm.startswith("flux_solver") or nm == "driving_force" for p in pairs for nm in p):
            pt.set(P_, "calculate_partial_fluxes", lambda self, *a, **k: (cnt.reset(), orig_cpf(self, *a, **k))[1])
        else:
            w.ps.install(pt, validator="real", flux="stub", heats=False, fit="stub", clamp="real")
        solver_history = any(nm.startswith("flux_solver") or nm == "driving_force" for p in pairs for nm in p)
        fresh = w.entries(fresh_object=True)[0] if solver_history else None
        for x, y in pairs:
            tag = "C20/history/%s/%s_then_%s" % (mode, x, y)
            n = 0
            RH, hin = "vf.props.C20:concrete_history", {"x": x, "y": y}
            state = {}

            def run(x=x, y=y):
                attr.validators.set_disabled(False)  # every explored path starts from the interpreter's initial switches
                state["mods"] = snap_modules()
                state["before"] = snapshot(w.args)
                go = lambda nm, table=E: (cnt.reset(), table[nm]())[1]  # every call of the history gets the whole loop budget
                if fresh is not None:
                    go(y)  # the history starts with the *other* question, so that the first X already has something behind it
                r = go(x), go(y), go(x)
                if fresh is not None:
                    # ... and the last call once more on a Pervaporation object that has no history at all
                    state["fresh"] = go(x, fresh)
                return r

            for leaf in job.explore(run, dom, timeout_ms=100, max_paths=200):
                if leaf.kind != "returned":
                    continue
                n += 1
                if n > 12:
                    break
                d = diff(state["before"], snapshot(w.args)) + diff(state["mods"], snap_modules())
                job.judge("%s/leaf%d/shared_state_untouched" % (tag, n), not d, "; ".join(d[:2]), RH, hin)
                r1, _, r3 = leaf.value
                if fresh is not None:
                    a, b = nums(r1), nums(state["fresh"])
                    if len(a) == len(b) and a:
                        cg = sorted({nm for (_, nm, _) in Pure.tab.values()})
                        job.prove("%s/leaf%d/as_on_an_object_without_history" % (tag, n), dom + leaf.conds(), [lift(p) != lift(q) for p, q in zip(a, b)], RH, hin,
                                  fallback=[hin], timeout=20, congruence=cg)
                a, b = nums(r1), nums(r3)
                if len(a) != len(b):
                    job.record("%s/leaf%d" % (tag, n), "violated", "result shapes differ", replay={"fn": RH, "inputs": hin})
                else:
                    cg = sorted({nm for (_, nm, _) in Pure.tab.values()})
                    job.prove("%s/leaf%d" % (tag, n), dom + leaf.conds(), [lift(p) != lift(q) for p, q in zip(a, b)], RH, hin,
                              fallback=[hin], timeout=20, congruence=cg)
            attr.validators.set_disabled(False)
            if n == 0:
                job.vacuity["failed"].append(tag)


JOB_TIMEOUT = {"quick": 500, "thorough": 3000}
GROUPS = [["flux_solver"], ["permeate_composition"], ["separation_factor"], ["permeance", "selectivity"], ["ideal_curve", "measurements_first", "measurements_second"],
          ["fit"], ["find_best_fit"], ["non_ideal_curve"], ["ideal_iso"], ["ideal_noniso"], ["nonideal_iso"], ["nonideal_noniso"]]


def concrete_thermo(inp):
    """the thermodynamic functions on caller-held compositions (also exactly pure ones): arguments untouched, a repeated call gives the same numbers"""
    from pyvaporation.mixtures import Mixtures as _M
    bad = []
    for name in ("H2O_EtOH", "MeOH_MTBE"):
        mix = getattr(_M, name)
        for model in ("NRTL", "UNIQUAC"):
            for basis in ("molar", "weight"):
                for p in (0.0, 1.0, 0.3, inp.get("x")):
                    if p is None or not 0 <= p <= 1:
                        continue
                    c = mixmod.Composition(p, basis)
                    for fn in (mixmod.get_partial_pressures, mixmod.calculate_activity_coefficients):
                        first = tuple(float(v) for v in fn(333.15, mix, c, model))
                        if c.p != p or c.type != basis:
                            bad.append("%s(%s, %s) changed the caller's Composition(%r, %s) to (%r, %s)" % (fn.__name__, name, model, p, basis, c.p, c.type))
                            c = mixmod.Composition(p, basis)
                            continue
                        again = tuple(float(v) for v in fn(333.15, mix, c, model))
                        if again != first:
                            bad.append("%s(%s, %s) at Composition(%r, %s): %r, repeated %r" % (fn.__name__, name, model, p, basis, first, again))
    return {"ok": not bad, "detail": "; ".join(bad[:3]), "inputs": inp}


def thermo(job):
    """real calculate_activity_coefficients / get_partial_pressures (both models) on a caller-held Composition with p in the CLOSED interval:
    the argument object is untouched on every leaf (the pure ends are leaves of their own) and a repeated call returns the same terms"""
    job.bound(calls_per_object=2)
    job.assume("0 <= p <= 1 (closed), 273 < T < 400")
    from pyvaporation.mixtures import Mixtures as _M
    T, x = real("T"), real("x")
    dom = [T.t > 273, T.t < 400, x.t >= 0, x.t <= 1]
    mix = build.lift_obj(_M.H2O_EtOH)
    for model in ("NRTL", "UNIQUAC"):
        for basis in ("molar", "weight"):
            for fname in ("get_partial_pressures", "calculate_activity_coefficients"):
                fn = getattr(mixmod, fname)
                tag = "C20/thermo/%s/%s/%s" % (fname, model, basis)

                def run(fn=fn, basis=basis, model=model):
                    c = build.comp(x, basis)
                    r1 = fn(T, mix, c, model)
                    seen = (c.p, c.type)
                    r2 = fn(T, mix, c, model)
                    return c, seen, r1, r2

                n = 0
                for leaf in job.explore(run, dom, timeout_ms=200):
                    if leaf.kind != "returned":
                        continue
                    n += 1
                    c, seen, r1, r2 = leaf.value
                    untouched = seen[1] == basis and c.type == basis and all(isinstance(v, SReal) and z3.eq(v.t, x.t) for v in (seen[0], c.p))
                    job.judge("%s/leaf%d/argument_untouched" % (tag, n), untouched, "Composition(p, %s) became (%s, %s)" % (basis, seen[0], seen[1]),
                              "vf.props.C20:concrete_thermo", {}, nontrivial=True)
                    job.prove("%s/leaf%d/repeatable" % (tag, n), dom + leaf.conds(), [lift(a) != lift(b) for a, b in zip(r1, r2)],
                              "vf.props.C20:concrete_thermo", {"x": x.t}, congruence=["EXP", "LOG"], timeout=20)
                if n == 0:
                    job.unreached(tag)


def real_code(job):
    """what the lifted worlds leave out by their domain (fractions strictly inside (0, 1)): every entry point once on real objects with the
    real optimiser, the curve also over a composition list that includes the pure ends -- labelled concrete points"""
    job.bound(real_code_entries="all entry points of the real world, each called twice")
    job.refute_concretely("C20/real_code/arguments_unchanged_and_repeatable", "vf.props.C20:concrete", {"entry": "all"})


def jobs(tier):
    js = [("thermo", "thermo", {})]
    modes = ("ptemp",) if tier == "quick" else proc.MODES
    for mode in modes:
        for nc in (1, 2):
            for g in GROUPS:
                if tier == "quick" and nc == 1 and g[0] not in ("non_ideal_curve", "nonideal_iso", "nonideal_noniso"):
                    continue  # the curve count only matters to the non-ideal entry points
                js.append(("frame_%s_c%d_%s" % (mode, nc, g[0]), "frame", {"mode": mode, "n_curves": nc, "names": g}))
    pairs = [("fit", "find_best_fit"), ("find_best_fit", "nonideal_iso"), ("nonideal_noniso", "fit"), ("non_ideal_curve", "nonideal_noniso"),
             ("ideal_curve", "measurements_first")]
    # hidden state on the long-lived objects: the other activity model, a rejected question, the public helper at a state of its own
    solver_pairs = [("flux_solver", "flux_solver_uniquac"), ("driving_force", "flux_solver"), ("flux_solver", "flux_solver_rejected"), ("flux_solver_uniquac", "flux_solver")]
    if tier == "thorough":
        names = ["flux_solver", "ideal_curve", "non_ideal_curve", "fit", "find_best_fit", "ideal_iso", "ideal_noniso", "nonideal_iso", "nonideal_noniso"]
        pairs = [(a, b) for a in names for b in names if a != b]
    for i in range(0, len(pairs), 2):
        js.append(("history_%d" % i, "histories", {"mode": "ptemp", "pairs": pairs[i:i + 2]}))
    for i in range(0, len(solver_pairs), 2):
        js.append(("history_solver_%d" % i, "histories", {"mode": "ptemp", "pairs": solver_pairs[i:i + 2]}))
    js.append(("real_code", "real_code", {}))
    return js

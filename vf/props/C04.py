"""C04 -- activity-coefficient models are thermodynamically consistent."""
import math

import z3

import pyvaporation as pv
from pyvaporation.mixtures import Mixtures
from pyvaporation.mixtures import mixture as mixmod
from pyvaporation import utils as pvutils

from ..symx import real, lift, rv, SReal, Pure
from .. import build, terms, core
from ..core import close, Patches

EXPLANATION = ("calculate_activity_coefficients (NRTL: every parameter symbolic, one or two non-randomness factors, with/without "
               "temperature-independent terms; UNIQUAC: x, T, alpha/beta, z symbolic, component constants exact per built-in mixture) "
               "is executed; ln gamma is extracted, differentiated symbolically in x, x-free atoms are generalised and the Gibbs-Duhem "
               "residual is brought to a division-free numerator whose non-vanishing is refuted by z3.  Pure limits by substitution "
               "x:=1 / x:=0 in the executed terms, Raoult by executing with g=a=0, partial pressures with gamma/Psat as UFs.")
OUTSIDE = ("UNIQUAC with arbitrary real component constants (r, q, q') -- only the built-in components' constants (exact) are covered; "
           "floating-point rounding; the UNIQUAC end-point substitution x=0 -> 1e-5 made by the code is bypassed by taking the limit "
           "on the generic-x term")
R_GD = "vf.props.C04:concrete_gd"
R_PP = "vf.props.C04:concrete_pp"

BUILTIN = sorted(n for n in vars(Mixtures) if isinstance(getattr(Mixtures, n), pv.Mixture))


def _named_mixture(name):
    """built-in mixture, its relabelled twin (`<name>_mirrored`: components and parameters exchanged) or a synthetic one in which one
    component has no separate interaction surface parameter (q' = q)"""
    import copy
    if name in BUILTIN:
        return getattr(Mixtures, name)
    if name.endswith("_mirrored"):
        from .C06 import swapped_mixture
        m = swapped_mixture(getattr(Mixtures, name[:-9]))
        m.name = name
        return m
    if name.startswith("synthetic_"):
        base = Mixtures.H2O_EtOH
        c1, c2 = copy.deepcopy(base.first_component), copy.deepcopy(base.second_component)
        if name.endswith("q1"):
            c1.uniquac_constants.q_interaction = c1.uniquac_constants.q_geometric
        else:
            c2.uniquac_constants.q_interaction = c2.uniquac_constants.q_geometric
        return pv.Mixture(name=name, first_component=c1, second_component=c2, nrtl_params=base.nrtl_params, uniquac_params=base.uniquac_params)
    raise KeyError(name)


UNIQUAC_SETS = BUILTIN + [n + "_mirrored" for n in BUILTIN] + ["synthetic_q1", "synthetic_q2"]


def _fmix(inp):
    """real float mixture from replay inputs"""
    if inp.get("mixture") in UNIQUAC_SETS:
        base = _named_mixture(inp["mixture"])
    else:
        base = Mixtures.H2O_EtOH
    nrtl = base.nrtl_params
    if inp.get("g12") is not None:
        nrtl = pv.NRTLParameters(g12=inp["g12"], g21=inp["g21"], alpha12=inp["al12"], alpha21=inp.get("al21"),
                                 a12=inp.get("a12") or 0, a21=inp.get("a21") or 0)
    uq = base.uniquac_params
    if inp.get("ua12") is not None:
        uq = pv.UNIQUACParameters(alpha_12=inp["ua12"], alpha_21=inp["ua21"], beta_12=inp["ub12"], beta_21=inp["ub21"],
                                  z=inp.get("z", 10) or 10)
    return pv.Mixture(name=base.name, first_component=base.first_component, second_component=base.second_component,
                      nrtl_params=nrtl, uniquac_params=uq)


def gd_residual(mix, model, T, x, h=1e-6):
    f = lambda xx: [math.log(float(g)) for g in mixmod.calculate_activity_coefficients(T, mix, mixmod.Composition(xx, "molar"), model)]
    a, b = f(x + h), f(x - h)
    d1, d2 = (a[0] - b[0]) / (2 * h), (a[1] - b[1]) / (2 * h)
    return x * d1 + (1 - x) * d2, max(abs(x * d1), abs((1 - x) * d2), 1e-6)


def concrete_gd(inp):
    model = inp.get("model", "NRTL")
    T, x = inp.get("T"), inp.get("x")
    if T is None or x is None or not (273 < T < 400 and 1e-3 < x < 1 - 1e-3):
        return {"ok": True, "detail": "outside domain"}
    mix = _fmix(inp)
    try:
        res, scale = gd_residual(mix, model, T, x)
    except (OverflowError, ValueError, ZeroDivisionError, FloatingPointError) as e:
        return {"ok": True, "detail": "numerically degenerate point: %r" % (e,)}
    if not math.isfinite(res) or not math.isfinite(scale):
        return {"ok": True, "detail": "non-finite"}
    ok = abs(res) <= 1e-5 * scale + 1e-7
    return {"ok": ok, "detail": "%s %s T=%.6g x=%.6g: Gibbs-Duhem residual %.3e (scale %.3e)" % (mix.name, model, T, x, res, scale)}


def concrete_gd_modulo(inp):
    """replay of `gibbs_duhem_modulo_listed_deviation`: the real code's ln gamma_2 minus the listed deviation (the mistyped residual
    bracket, evaluated numerically) must satisfy Gibbs-Duhem together with ln gamma_1 -- so that this obligation's replay does not
    'reproduce' merely because of the listed finding itself"""
    T, x = inp.get("T"), inp.get("x")
    if T is None or x is None or not (273 < T < 400 and 1e-3 < x < 1 - 1e-3):
        return {"ok": True, "detail": "outside domain"}
    mix = _fmix(inp)
    c1, c2 = mix.first_component.uniquac_constants, mix.second_component.uniquac_constants
    up = mix.uniquac_params
    if c1 is None or c2 is None or up is None:
        return {"ok": True, "detail": "no UNIQUAC data"}

    def dev(xx):
        q1, q2 = c1.q_interaction, c2.q_interaction
        sden = xx * q1 + (1 - xx) * q2
        th1, th2 = xx * q1 / sden, (1 - xx) * q2 / sden
        t12 = math.exp(-(up.alpha_12 + up.beta_12 / T) / T)
        t21 = math.exp(-(up.alpha_21 + up.beta_21 / T) / T)
        code = t12 / (th2 + th1 * t21) - t12 / (th1 + th2 * t12)
        right = t12 / (th2 + th1 * t12) - t21 / (th1 + th2 * t21)
        return th1 * q2 * (code - right)

    def f(xx):
        g = mixmod.calculate_activity_coefficients(T, mix, mixmod.Composition(xx, "molar"), "UNIQUAC")
        return math.log(float(g[0])), math.log(float(g[1])) - dev(xx)
    h = 1e-6
    try:
        a, b = f(x + h), f(x - h)
    except (OverflowError, ValueError, ZeroDivisionError, FloatingPointError) as e:
        return {"ok": True, "detail": "numerically degenerate point: %r" % (e,)}
    d1, d2 = (a[0] - b[0]) / (2 * h), (a[1] - b[1]) / (2 * h)
    res, scale = x * d1 + (1 - x) * d2, max(abs(x * d1), abs((1 - x) * d2), 1e-6)
    if not math.isfinite(res) or not math.isfinite(scale):
        return {"ok": True, "detail": "non-finite"}
    ok = abs(res) <= 1e-5 * scale + 1e-7
    return {"ok": ok, "detail": "%s UNIQUAC T=%.6g x=%.6g: Gibbs-Duhem residual %.3e beyond the listed deviation (scale %.3e)" % (mix.name, T, x, res, scale)}


def concrete_pp(inp):
    """partial pressures = x*gamma*Psat, basis independent, pure limits, Raoult -- on the real code"""
    T, x = inp.get("T"), inp.get("x")
    if T is None or x is None or not (273 < T < 400 and 0 <= x <= 1):
        return {"ok": True, "detail": "outside domain"}
    mix = _fmix(inp)
    bad = []
    for frost in (False, True):
        if not frost:
            continue
        # a mixture whose second component has Frost vapour-pressure constants: the saturation pressure is the component's own equation
        import attr
        c2 = attr.evolve(mix.second_component, vapour_pressure_constants=pv.VaporPressureConstants(a=16.0, b=-3800.0, c=-200000.0, type="frost"))
        mf = attr.evolve(mix, second_component=c2)
        for model in ("NRTL", "UNIQUAC"):
            cm = mixmod.Composition(x, "molar")
            g = mixmod.calculate_activity_coefficients(T, mf, cm, model)
            p = mixmod.get_partial_pressures(T, mf, cm, model)
            want = (mf.first_component.get_vapor_pressure(T) * g[0] * x, c2.get_vapor_pressure(T) * g[1] * (1 - x))
            if not (close(p[0], want[0], 1e-9) and close(p[1], want[1], 1e-9)):
                bad.append("%s, second component with Frost constants: partial pressures %r != x*gamma*Psat %r" % (model, tuple(map(float, p)), tuple(map(float, want))))
    for model in ("NRTL", "UNIQUAC"):
        cm = mixmod.Composition(x, "molar")
        g = mixmod.calculate_activity_coefficients(T, mix, cm, model)
        p = mixmod.get_partial_pressures(T, mix, cm, model)
        want = (mix.first_component.get_vapor_pressure(T) * g[0] * x, mix.second_component.get_vapor_pressure(T) * g[1] * (1 - x))
        if not (close(p[0], want[0], 1e-9) and close(p[1], want[1], 1e-9)):
            bad.append("%s: partial pressures %r != x*gamma*Psat %r" % (model, p, want))
        pw = mixmod.get_partial_pressures(T, mix, cm.to_weight(mix), model)
        if not (close(p[0], pw[0], 1e-8) and close(p[1], pw[1], 1e-8)):
            bad.append("%s: weight-basis input gives %r, molar %r" % (model, pw, p))
        if 0 < x < 1:
            gw = mixmod.calculate_activity_coefficients(T, mix, cm.to_weight(mix), model)
            if not (close(g[0], gw[0], 1e-8) and close(g[1], gw[1], 1e-8)):
                bad.append("%s: activity coefficients of the equivalent mass fraction %r, of the mole fraction %r" % (model, tuple(map(float, gw)), tuple(map(float, g))))
    g1 = mixmod.calculate_activity_coefficients(T, mix, mixmod.Composition(1.0, "molar"), "NRTL")[0]
    g2 = mixmod.calculate_activity_coefficients(T, mix, mixmod.Composition(0.0, "molar"), "NRTL")[1]
    if not (close(g1, 1.0) and close(g2, 1.0)):
        bad.append("NRTL pure limits %r %r" % (g1, g2))
    return {"ok": not bad, "detail": "; ".join(bad)}


def _gd_cons(g1, g2, x):
    ln1, ln2 = terms.ln(lift(g1)), terms.ln(lift(g2))
    gd = x.t * terms.deriv(ln1, x.t) + (1 - x.t) * terms.deriv(ln2, x.t)
    table = {}
    gdg = terms.generalise(gd, x.t, table)
    cons, nf = terms.zero_query(gdg)
    return cons, nf, len(table)


def _nrtl_point(rng, two_alpha, with_a):
    """a realistic NRTL parameter set and state, from near-ideal to strongly non-ideal (hydrocarbon in water), dilute ends included"""
    x = rng.choice([rng.uniform(0.002, 0.998), 10 ** rng.uniform(-2.7, -1), 1 - 10 ** rng.uniform(-2.7, -1)])
    return {"g12": rng.uniform(-4000, 30000), "g21": rng.uniform(-4000, 30000), "al12": rng.uniform(0.1, 0.5),
            "al21": rng.uniform(0.1, 0.5) if two_alpha else None, "a12": rng.uniform(-1, 3) if with_a else 0,
            "a21": rng.uniform(-1, 3) if with_a else 0, "T": rng.uniform(275, 398), "x": x}


def nrtl(job):
    job.bound(no_unrolling_bound="NRTL: g12, g21, alpha12, alpha21, a12, a21, T, x all symbolic")
    job.assume("0 < x < 1 (mole fraction), 273 < T < 400", "EXP > 0; x-free atoms generalised to arbitrary reals (sound for unsat)",
               "denominators of the executed formula non-zero (they are x + (1-x) G with G > 0)")
    T, x = real("T"), real("x")
    fb = [{"g12": 5823.0, "g21": -633.0, "al12": 0.3, "al21": None, "a12": 0, "a21": 0, "T": 333.15, "x": 0.3},
          {"g12": -5132.5, "g21": 1438.4, "al12": 0.0, "al21": 0.3, "a12": 2.7321, "a21": -0.693, "T": 313.15, "x": 0.6}]
    for two_alpha in (False, True):
        for with_a in (False, True):
            tag = "C04/nrtl/alpha%d/a%d" % (2 if two_alpha else 1, int(with_a))
            mix = build.sym_mixture(two_alpha=two_alpha, with_a=with_a)
            n = mix.nrtl_params
            dom = build.domain_T(T) + build.domain_open01(x)
            inputs = {"model": "NRTL", "T": T.t, "x": x.t, "g12": n.g12.t, "g21": n.g21.t, "al12": n.alpha12.t,
                      "al21": n.alpha21.t if two_alpha else None, "a12": n.a12.t if with_a else 0, "a21": n.a21.t if with_a else 0}
            k = 0
            for leaf in job.explore(lambda: mixmod.calculate_activity_coefficients(T, mix, build.comp(x, "molar"), "NRTL"), dom):
                if leaf.kind != "returned":
                    job.prove(tag + "/no_raise", dom + leaf.pc, z3.BoolVal(True), R_GD, inputs)
                    continue
                k += 1
                g1, g2 = leaf.value
                cons, nf, na = _gd_cons(g1, g2, x)
                job.prove(tag + "/gibbs_duhem", dom + leaf.conds() + cons[:-1], cons[-1], R_GD, inputs, fallback=fb, timeout=60,
                          sampler=lambda rng, two_alpha=two_alpha, with_a=with_a: _nrtl_point(rng, two_alpha, with_a), pc=leaf.pc)
                job.twin_sat(tag + "/twin", dom + leaf.conds() + cons[:-1])
                # pure limits on the executed terms
                job.prove(tag + "/pure_1", [], terms.subst(lift(g1), [(x.t, z3.RealVal(1))]) != 1, R_PP, inputs)
                job.prove(tag + "/pure_2", [], terms.subst(lift(g2), [(x.t, z3.RealVal(0))]) != 1, R_PP, inputs)
                # translator validation against the real code (H2O/EtOH test point and a seeded one)
                for pt in fb[:1] + [{"g12": job.rng.uniform(-3000, 6000), "g21": job.rng.uniform(-3000, 6000), "al12": 0.3, "al21": 0.4,
                                     "a12": 0.5, "a21": -0.2, "T": job.rng.uniform(280, 390), "x": job.rng.uniform(0.05, 0.95)}]:
                    pt = dict(pt)
                    if not two_alpha:
                        pt["al21"] = None
                    else:
                        pt["al21"] = pt["al21"] or 0.25
                    if not with_a:
                        pt["a12"] = pt["a21"] = 0
                    want = mixmod.calculate_activity_coefficients(pt["T"], _fmix(pt), mixmod.Composition(pt["x"], "molar"), "NRTL")
                    env = {"T": pt["T"], "x": pt["x"], "g12": pt["g12"], "g21": pt["g21"], "al12": pt["al12"], "al21": pt["al21"] or 0.0,
                           "a12": pt["a12"], "a21": pt["a21"]}
                    try:
                        on_path = all(terms.evaluate(c, env) for c in leaf.pc)
                    except Exception:
                        on_path = False
                    if not on_path:
                        continue  # the validation point does not follow this leaf's path
                    got = (terms.evaluate(lift(g1), env), terms.evaluate(lift(g2), env))
                    job.validated(tag, close(want[0], got[0], 1e-9) and close(want[1], got[1], 1e-9), "%r vs %r" % (want, got))
            if k == 0:
                job.vacuity["failed"].append(tag)
            # executed at the end points as well (x = 1: gamma_1 = 1; x = 0: gamma_2 = 1)
            for end, idx in ((1, 0), (0, 1)):
                for leaf in job.explore(lambda: mixmod.calculate_activity_coefficients(T, mix, build.comp(build.S(end), "molar"), "NRTL"),
                                        build.domain_T(T)):
                    if leaf.kind == "returned":
                        job.prove(tag + "/executed_pure_%d" % (idx + 1), build.domain_T(T) + leaf.conds(), lift(leaf.value[idx]) != 1, R_PP, inputs)
                    else:
                        job.prove(tag + "/executed_pure_%d/no_raise" % (idx + 1), build.domain_T(T) + leaf.pc, z3.BoolVal(True), R_PP, inputs)

    # Raoult: vanishing interaction parameters
    mix = build.sym_mixture(two_alpha=True, with_a=True)
    n = mix.nrtl_params
    n.g12 = n.g21 = n.a12 = n.a21 = build.S(0)
    dom = build.domain_T(T) + [x.t >= 0, x.t <= 1]
    for leaf in job.explore(lambda: mixmod.calculate_activity_coefficients(T, mix, build.comp(x, "molar"), "NRTL"), dom):
        if leaf.kind == "returned":
            inputs = {"model": "NRTL", "T": T.t, "x": x.t, "g12": 0.0, "g21": 0.0, "al12": n.alpha12.t, "al21": n.alpha21.t, "a12": 0, "a21": 0}
            job.prove("C04/nrtl/raoult", dom + leaf.conds(), z3.Or(lift(leaf.value[0]) != 1, lift(leaf.value[1]) != 1),
                      "vf.props.C04:concrete_raoult", inputs)


def concrete_raoult(inp):
    T, x = inp.get("T") or 333.15, inp.get("x")
    if x is None or not 0 <= x <= 1:
        x = 0.4
    mix = _fmix(dict(inp, g12=0.0, g21=0.0, a12=0, a21=0, al12=inp.get("al12") or 0.3))
    g = mixmod.calculate_activity_coefficients(T, mix, mixmod.Composition(x, "molar"), "NRTL")
    ok = close(g[0], 1.0) and close(g[1], 1.0)
    return {"ok": ok, "detail": "NRTL with vanishing interaction parameters gives gamma=%r" % (g,)}


def _uniquac_known_deviation(mix, T, x):
    """characterisation of the listed finding (the mistyped residual bracket of gamma_2), written with the
    harness' own theta', tau terms: ln gamma_2(code) - ln gamma_2(consistent) = theta1' q2' (code bracket - consistent bracket)"""
    c1, c2 = mix.first_component.uniquac_constants, mix.second_component.uniquac_constants
    q1, q2 = lift(c1.q_interaction), lift(c2.q_interaction)
    up = mix.uniquac_params
    s = x.t * q1 + (1 - x.t) * q2
    th1, th2 = x.t * q1 / s, (1 - x.t) * q2 / s
    from ..symx import EXP
    t12 = EXP(-(lift(up.alpha_12) + lift(up.beta_12) / T.t) / T.t)
    t21 = EXP(-(lift(up.alpha_21) + lift(up.beta_21) / T.t) / T.t)
    code = t12 / (th2 + th1 * t21) - t12 / (th1 + th2 * t12)
    right = t12 / (th2 + th1 * t12) - t21 / (th1 + th2 * t21)
    return th1 * q2 * (code - right)


def uniquac(job, names=None):
    job.bound(uniquac_component_constants="exact constants of the 8 built-in mixtures, of their relabelled twins and of 2 synthetic sets with q' = q for one component")
    job.assume("0 < x < 1, 273 < T < 400", "UNIQUAC alpha/beta/z symbolic (tau = EXP atoms > 0)")
    T, x = real("T"), real("x")
    for name in names or BUILTIN:
        tag = "C04/uniquac/%s" % name
        mix = build.lift_obj(_named_mixture(name))
        up = mix.uniquac_params
        exact = {k: getattr(up, k) for k in ("alpha_12", "alpha_21", "beta_12", "beta_21", "z")}
        up.alpha_12, up.alpha_21, up.beta_12, up.beta_21, up.z = real("ua12"), real("ua21"), real("ub12"), real("ub21"), real("uz")
        dom = build.domain_T(T) + build.domain_open01(x) + [up.z.t > 0]
        inputs = {"model": "UNIQUAC", "mixture": name, "T": T.t, "x": x.t, "ua12": up.alpha_12.t, "ua21": up.alpha_21.t,
                  "ub12": up.beta_12.t, "ub21": up.beta_21.t, "z": 10}
        base = _named_mixture(name).uniquac_params
        fb = [{"ua12": base.alpha_12, "ua21": base.alpha_21, "ub12": base.beta_12, "ub21": base.beta_21, "z": base.z, "T": 333.15, "x": 0.35},
              {"ua12": base.alpha_12, "ua21": base.alpha_21, "ub12": base.beta_12, "ub21": base.beta_21, "z": base.z, "T": 300.0, "x": 0.7}]
        k = 0
        for leaf in job.explore(lambda: mixmod.calculate_activity_coefficients(T, mix, build.comp(x, "molar"), "UNIQUAC"), dom):
            if leaf.kind != "returned":
                job.prove(tag + "/no_raise", dom + leaf.pc, z3.BoolVal(True), R_GD, inputs)
                continue
            k += 1
            g1, g2 = leaf.value
            cons, nf, na = _gd_cons(g1, g2, x)
            st = job.prove(tag + "/gibbs_duhem", dom + leaf.conds() + cons[:-1], cons[-1], R_GD, inputs, fallback=fb, timeout=60)
            if st == "violated":
                entry = core.characterised_finding("C04", tag + "/gibbs_duhem")
                if entry is not None:
                    # defect-aware oracle: the code must deviate from consistency by exactly the listed term and nothing else
                    dev = _uniquac_known_deviation(mix, T, x)
                    g2c = SReal(terms.ln(lift(g2)) - dev)
                    ln1, ln2 = terms.ln(lift(g1)), g2c.t
                    gd = x.t * terms.deriv(ln1, x.t) + (1 - x.t) * terms.deriv(ln2, x.t)
                    cons2, _ = terms.zero_query(terms.generalise(gd, x.t, {}))
                    st2 = job.prove(tag + "/gibbs_duhem_modulo_listed_deviation", dom + leaf.conds() + cons2[:-1], cons2[-1],
                                    "vf.props.C04:concrete_gd_modulo", inputs, fallback=fb, timeout=60)
                    if st2 == "discharged":
                        job.mark_known(tag + "/gibbs_duhem", entry["what"])
            job.prove(tag + "/pure_1", [], terms.subst(lift(g1), [(x.t, z3.RealVal(1))]) != 1, R_PP, inputs)
            job.prove(tag + "/pure_2", [], terms.subst(lift(g2), [(x.t, z3.RealVal(0))]) != 1, R_PP, inputs)
            for pt in fb:
                env = {"T": pt["T"], "x": pt["x"], "ua12": pt["ua12"], "ua21": pt["ua21"], "ub12": pt["ub12"], "ub21": pt["ub21"], "uz": float(pt["z"])}
                want = mixmod.calculate_activity_coefficients(pt["T"], _named_mixture(name), mixmod.Composition(pt["x"], "molar"), "UNIQUAC")
                got = (terms.evaluate(lift(g1), env), terms.evaluate(lift(g2), env))
                job.validated(tag, close(want[0], got[0], 1e-9) and close(want[1], got[1], 1e-9), "%r vs %r" % (want, got))
        if k == 0:
            job.vacuity["failed"].append(tag)


def pressures(job):
    """get_partial_pressures = x_i * gamma_i * Psat_i with molar x; same for the equivalent mass fraction"""
    job.stub("GAMMA_i^model(T, x_molar) > 0 for calculate_activity_coefficients", "PSAT_i(T) > 0 for Component.get_vapor_pressure")
    T, x = real("T"), real("x")
    mix = build.sym_mixture()
    M1, M2 = mix.first_component.molecular_weight, mix.second_component.molecular_weight
    dom = build.domain_T(T) + [x.t >= 0, x.t <= 1, M1.t > 0, M2.t > 0]
    inputs = {"T": T.t, "x": x.t, "mixture": "H2O_EtOH"}
    fb = [{"T": 333.15, "x": 0.3, "mixture": m} for m in ("H2O_EtOH", "MeOH_MTBE")]
    from ..symx import UF
    for model in ("NRTL", "UNIQUAC"):
        with Patches() as pt:
            build.stub_thermo(pt, mix)
            build.assume_validator(pt)

            def run():
                pm = mixmod.get_partial_pressures(T, mix, build.comp(x, "molar"), model)
                w = build.S(build.w_of_x(x, M1, M2))
                pw = mixmod.get_partial_pressures(T, mix, build.comp(w, "weight"), model)
                return pm, pw

            n = 0
            for leaf in job.explore(run, dom):
                tag = "C04/partial_pressures/%s" % model
                if leaf.kind != "returned":
                    job.prove(tag + "/no_raise", dom + leaf.pc, z3.BoolVal(True), R_PP, inputs, fallback=fb)
                    continue
                n += 1
                pm, pw = leaf.value
                o1 = UF("PSAT1", T, pos=True) * UF("GAMMA1_%s" % model, T, x, pos=True) * x.t
                o2 = UF("PSAT2", T, pos=True) * UF("GAMMA2_%s" % model, T, x, pos=True) * (1 - x.t)
                cs = dom + leaf.conds()
                job.prove(tag + "/law", cs, z3.Or(lift(pm[0]) != o1, lift(pm[1]) != o2), R_PP, inputs, fallback=fb)
                job.prove(tag + "/basis_independent", cs, z3.Or(lift(pm[0]) != lift(pw[0]), lift(pm[1]) != lift(pw[1])),
                          R_PP, inputs, fallback=fb, congruence=["GAMMA1_%s" % model, "GAMMA2_%s" % model])
                job.twin_sat(tag + "/twin", cs)
            if n == 0:
                job.vacuity["failed"].append(model)
    # the saturation pressure is the component's own equation: the real get_vapor_pressure of an Antoine and of a Frost component runs
    for kinds in (("antoine", "frost"), ("frost", "antoine")):
        c1, c2 = build.sym_component("1", vp_type=kinds[0]), build.sym_component("2", vp_type=kinds[1])
        mixk = build.sym_mixture(c1, c2)
        domk = build.domain_T(T) + [x.t > 0, x.t < 1, c1.molecular_weight.t > 0, c2.molecular_weight.t > 0]
        for c in (c1, c2):
            if c.vapour_pressure_constants.type == "antoine":
                domk.append(T.t + c.vapour_pressure_constants.c.t != 0)
        with Patches() as pt:
            build.stub_thermo(pt, mixk, gamma=True, psat=False)
            build.assume_validator(pt)

            def runk():
                return mixmod.get_partial_pressures(T, mixk, build.comp(x, "molar"), "NRTL"), c1.get_vapor_pressure(T), c2.get_vapor_pressure(T)

            tagk = "C04/partial_pressures/%s+%s" % kinds
            nk = 0
            for leaf in job.explore(runk, domk):
                if leaf.kind != "returned":
                    job.prove(tagk + "/no_raise", domk + leaf.pc, z3.BoolVal(True), R_PP, inputs, fallback=fb)
                    continue
                nk += 1
                pm, s1, s2 = leaf.value
                job.prove(tagk + "/law_with_each_components_own_equation", domk + leaf.conds(),
                          z3.Or(lift(pm[0]) != lift(s1) * UF("GAMMA1_NRTL", T, x, pos=True) * x.t, lift(pm[1]) != lift(s2) * UF("GAMMA2_NRTL", T, x, pos=True) * (1 - x.t)),
                          R_PP, inputs, fallback=fb, congruence=["EXP"])
            if nk == 0:
                job.vacuity["failed"].append(tagk)


def basis(job):
    """calculate_activity_coefficients documents 'mol or weight': a mass fraction must be evaluated at the equivalent mole fraction"""
    job.assume("0 < w < 1 (mass fraction), 273 < T < 400, molar masses > 0")
    T, w = real("T"), real("x")
    fb = [{"T": 333.15, "x": 0.3, "mixture": m} for m in ("H2O_EtOH", "MeOH_MTBE")]
    for model, mix in (("NRTL", build.sym_mixture(two_alpha=True, with_a=True)), ("UNIQUAC", build.lift_obj(_named_mixture("H2O_EtOH")))):
        M1, M2 = mix.first_component.molecular_weight, mix.second_component.molecular_weight
        dom = build.domain_T(T) + build.domain_open01(w) + [lift(M1) > 0, lift(M2) > 0]
        tag = "C04/basis/%s" % model
        inputs = {"T": T.t, "x": w.t, "mixture": "H2O_EtOH"}

        def run():
            gw = mixmod.calculate_activity_coefficients(T, mix, build.comp(w, "weight"), model)
            gm = mixmod.calculate_activity_coefficients(T, mix, build.comp(build.S(build.x_of_w(w, M1, M2)), "molar"), model)
            return gw, gm

        n = 0
        for leaf in job.explore(run, dom):
            if leaf.kind != "returned":
                job.prove(tag + "/no_raise", dom + leaf.pc, z3.BoolVal(True), R_PP, inputs, fallback=fb)
                continue
            n += 1
            gw, gm = leaf.value
            job.prove(tag + "/mass_fraction_evaluated_at_equivalent_mole_fraction", dom + leaf.conds(),
                      z3.Or(lift(gw[0]) != lift(gm[0]), lift(gw[1]) != lift(gm[1])), R_PP, inputs, fallback=fb, congruence=["EXP", "LOG"], timeout=30)
        if n == 0:
            job.vacuity["failed"].append(tag)
    # one mass-fraction Composition object handed to two mixtures with different molar masses: each call converts for its own mixture
    mixa = build.sym_mixture(two_alpha=True, with_a=True)
    mixb = build.sym_mixture(build.sym_component("3"), build.sym_component("4"), two_alpha=True, with_a=True, name="symmix2")
    Ms = [m.first_component.molecular_weight for m in (mixa, mixb)] + [m.second_component.molecular_weight for m in (mixa, mixb)]
    dom = build.domain_T(T) + build.domain_open01(w) + [lift(M) > 0 for M in Ms]

    def run2():
        c = build.comp(w, "weight")
        ga = mixmod.calculate_activity_coefficients(T, mixa, c, "NRTL")
        gb = mixmod.calculate_activity_coefficients(T, mixb, c, "NRTL")
        fresh = mixmod.calculate_activity_coefficients(T, mixb, build.comp(build.S(build.x_of_w(w, mixb.first_component.molecular_weight, mixb.second_component.molecular_weight)), "molar"), "NRTL")
        return gb, fresh

    for leaf in job.explore(run2, dom):
        if leaf.kind == "returned":
            gb, fresh = leaf.value
            job.prove("C04/basis/NRTL/same_object_second_mixture", dom + leaf.conds(), z3.Or(lift(gb[0]) != lift(fresh[0]), lift(gb[1]) != lift(fresh[1])),
                      "vf.props.C04:concrete_reuse", {"T": T.t, "x": w.t}, fallback=[{"T": 333.15, "x": 0.1}], congruence=["EXP", "LOG"], timeout=30)


def concrete_reuse(inp):
    from pyvaporation.mixtures import Mixtures as _M
    T, x = inp.get("T"), inp.get("x")
    if T is None or x is None or not (273 < T < 400 and 0 < x < 1):
        T, x = 333.15, 0.1
    bad = []
    for model in ("NRTL", "UNIQUAC"):
        c = mixmod.Composition(x, "weight")
        mixmod.get_partial_pressures(T, _M.H2O_MeOH, c, model)
        got = mixmod.get_partial_pressures(T, _M.H2O_EtOH, c, model)
        want = mixmod.get_partial_pressures(T, _M.H2O_EtOH, mixmod.Composition(x, "weight"), model)
        if not (close(got[0], want[0], 1e-9) and close(got[1], want[1], 1e-9)):
            bad.append("%s: partial pressures of H2O_EtOH for a mass-fraction object used with H2O_MeOH before: %r, for a fresh object %r" % (model, tuple(map(float, got)), tuple(map(float, want))))
    return {"ok": not bad, "detail": "; ".join(bad), "inputs": inp}


def jobs(tier):
    js = [("nrtl", "nrtl", {}), ("pressures", "pressures", {}), ("basis", "basis", {})]
    for name in UNIQUAC_SETS:
        js.append(("uniquac_" + name, "uniquac", {"names": [name]}))
    return js

"""C19 -- contradictory or incomplete specifications are rejected at every entry point."""
import z3

import pyvaporation as pv
from pyvaporation.diffusion_curve import DiffusionCurve
from pyvaporation.experiments import IdealExperiment, IdealExperiments
from pyvaporation.membrane import Membrane
from pyvaporation.mixtures import Mixtures
from pyvaporation.mixtures import mixture as mixmod
from pyvaporation.pervaporation.pervaporation import Pervaporation

from ..symx import lift, SReal, real
from .. import build, flux, proc, realrun
from ..core import Patches

EXPLANATION = ("Every entry point that computes a driving force is executed with BOTH a permeate temperature and a permeate pressure symbolic "
               "(non-None) and all other arguments symbolic: every explored leaf must end in an exception raised by the repository's code "
               "(no returning leaf).  Likewise for a mixture without parameters, an activity model whose parameters / component constants are "
               "missing, a curve with neither fluxes nor permeances, and a single experiment without activation energy queried off its "
               "temperature.  Twins with a valid specification must have a returning leaf.")
OUTSIDE = ("step counts / list lengths above the bound (N = 1, 2; 1 and 2 compositions); number_of_steps = 0 (the statement requires >= 1); "
           "unknown activity-model names (not in the statement)")
R_ = "vf.props.C19:concrete"
ENTRY = ("driving_force", "flux_solver", "permeate_composition", "separation_factor", "ideal_curve", "non_ideal_curve") + proc.KINDS + ("pure_component_flux", "curve_from_fluxes")


def _real_objects():
    mix = Mixtures.H2O_EtOH
    mem = realrun.membrane_for(mix)
    return mix, mem, Pervaporation(mem, mix)


def _call_real(entry, both=True, N=2, Tp=293.15, Pp=1.0, model="NRTL", without=None):
    """the same entry point on the real code with floats (without='uniquac': a mixture that has NRTL parameters only)"""
    mix, mem, pz = _real_objects()
    if without == "uniquac":
        import attr
        mix = attr.evolve(mix, uniquac_params=None)
        pz = Pervaporation(mem, mix)
    if not both:
        Pp = None
    comp = mixmod.Composition(0.2, "weight")
    P = (pv.Permeance(0.03), pv.Permeance(0.002))
    if entry == "driving_force":
        return pz.get_partial_fluxes_from_permeate_composition(P[0], P[1], mixmod.Composition(0.9, "weight"), comp, 333.15, Tp, Pp, model)
    if entry == "flux_solver":
        return pz.calculate_partial_fluxes(333.15, comp, 5e-5, Tp, Pp, calculation_type=model)
    if entry == "permeate_composition":
        return pz.calculate_permeate_composition(333.15, comp, 5e-5, Tp, Pp, model)
    if entry == "separation_factor":
        return pz.calculate_separation_factor(333.15, comp, Tp, Pp, 5e-5, model)
    if entry == "ideal_curve":
        return pz.ideal_diffusion_curve(333.15, [comp], Tp, Pp, 5e-5, model)
    if entry == "non_ideal_curve":
        return pz.non_ideal_diffusion_curve(realrun.curve_set(mix, 2), 333.15, comp, 0.05, 1, Tp, Pp, calculation_type=model, n_first=1, n_second=1, m_first=1, m_second=1)
    if entry in proc.KINDS:
        return realrun.process({"kind": entry, "A": 0.05, "T0": 333.15, "m0": 5.0, "x0": 0.3, "dt": 0.2, "N": N, "Tp": Tp, "Pp": Pp, "model": model}, mix=mix, membrane=mem)[0]
    if entry == "pure_component_flux":
        return mem.get_estimated_pure_component_flux(333.15, mix.first_component, Tp, Pp)
    if entry == "curve_from_fluxes":
        return DiffusionCurve(mixture=mix, membrane_name="m", feed_temperature=333.15, feed_compositions=[comp], partial_fluxes=[(0.3, 0.001)],
                              permeate_temperature=Tp, permeate_pressure=Pp)
    raise KeyError(entry)


def concrete(inp):
    entry = inp.get("entry")
    bad = []
    if entry in ENTRY:
        import warnings
        pairs = [(inp.get("Tp"), inp.get("Pp"))] if inp.get("Tp") is not None and inp.get("Pp") is not None else []
        pairs += [(293.15, 1.0), (293.15, 0.0), (293.15, 0), (0.0, 1.0), (0, 0)]
        for tp, pp in pairs:
            try:
                with warnings.catch_warnings():
                    warnings.simplefilter("ignore")
                    _call_real(entry, both=True, Tp=tp, Pp=pp)
                bad.append("%s accepted permeate temperature %r together with permeate pressure %r" % (entry, tp, pp))
                break
            except Exception:
                pass
    if inp.get("missing_model_entry"):
        import warnings
        e = inp["missing_model_entry"]
        for tp, pp in ((None, None), (293.15, None), (None, 1.0)):
            try:
                with warnings.catch_warnings():
                    warnings.simplefilter("ignore")
                    _call_real(e, both=True, Tp=tp, Pp=pp, model="UNIQUAC", without="uniquac")
                bad.append("%s accepted calculation_type='UNIQUAC' for a mixture without UNIQUAC parameters (permeate T=%r, p=%r)" % (e, tp, pp))
                break
            except (ValueError, KeyError, TypeError, AttributeError):
                pass
    cls = inp.get("class")
    if cls:
        xs = [v for v in (inp.get("x"),) if v is not None and 0 <= v <= 1] + [0.4, 0.0, 1.0]  # interior point and the two pure ends
        Tq = inp.get("T") if inp.get("T") is not None and 260 < inp["T"] < 420 else 333.15
        for xv in xs:
            try:
                _incomplete(cls, symbolic=False, x=float(xv), T=float(Tq))
                bad.append("incomplete specification %s was accepted (composition %r, T=%r)" % (cls, xv, Tq))
                break
            except Exception:
                pass
    return {"ok": not bad, "detail": "; ".join(bad), "inputs": inp}


def both_specified(job, entry, N):
    job.bound(steps_or_points=N)
    job.stub("GAMMA_i^model, PSAT_i, HVAP/CP/COOL", "PERM_i(T) (stub membrane)", "find_best_fit -> symbolic function (non-ideal entry points)")
    job.assume("permeate temperature and permeate pressure both non-None, any real values", "precision any positive value (also > 1, which skips the loop)")
    ps = proc.ProcSetup("non_ideal_isothermal_process" if entry not in proc.KINDS else entry, "ptemp", "weight", None, N, n_curves=2)
    Tp, Pp = real("Tp"), real("Pp")
    ps.cond.permeate_temperature, ps.cond.permeate_pressure = Tp, Pp
    T, x, y, prec, dx = ps.T0, ps.x0, real("y"), ps.prec, real("dx")
    dom = [T.t > 273, T.t < 400, x.t > 0, x.t < 1, y.t > 0, y.t < 1, prec.t > 0, ps.A.t > 0, ps.m0.t > 0, ps.dt.t > 0, dx.t > 0, dx.t < 1,
           lift(ps.M1) > 0, lift(ps.M2) > 0]
    pz = ps.pz
    P = lambda: (build.perm(real("P1")), build.perm(real("P2")))
    comp = lambda: build.comp(x, "weight")
    comps = lambda: [build.comp(x, "weight")] + [build.comp(real("x%d" % i), "molar") for i in range(1, N)]

    def call(tp, pp):
        ps.cond.permeate_temperature, ps.cond.permeate_pressure = tp, pp
        if entry == "driving_force":
            return pz.get_partial_fluxes_from_permeate_composition(P()[0], P()[1], build.comp(y, "weight"), comp(), T, tp, pp)
        if entry == "flux_solver":
            return pz.calculate_partial_fluxes(T, comp(), prec, tp, pp, *P())
        if entry == "permeate_composition":
            return pz.calculate_permeate_composition(T, comp(), prec, tp, pp)
        if entry == "separation_factor":
            return pz.calculate_separation_factor(T, comp(), tp, pp, prec)
        if entry == "ideal_curve":
            return pz.ideal_diffusion_curve(T, comps(), tp, pp, prec)
        if entry == "non_ideal_curve":
            return pz.non_ideal_diffusion_curve(ps.curves, T, comp(), dx, N, tp, pp, None, prec, "NRTL", 1, 1, 1, 1)
        if entry in proc.KINDS:
            return ps.run()
        if entry == "pure_component_flux":
            return Membrane.get_estimated_pure_component_flux(ps.membrane, T, ps.mix.first_component, tp, pp)
        if entry == "curve_from_fluxes":
            return DiffusionCurve(mixture=ps.mix, membrane_name="m", feed_temperature=T, feed_compositions=comps(),
                                  partial_fluxes=[(real("J1_%d" % i), real("J2_%d" % i)) for i in range(N)], permeate_temperature=tp, permeate_pressure=pp)

    tag = "C19/both/%s/N%d" % (proc.SHORT.get(entry, entry), N)
    with Patches() as pt:
        build.stub_thermo(pt, ps.mix, heats=True)
        ps.install(pt, validator="real", flux="real", heats=False, clamp="real")
        cnt = flux.LoopCounter(pt, 3)
        n = 0
        for leaf in job.explore(lambda: (cnt.reset(), call(Tp, Pp))[1], dom, timeout_ms=200, max_paths=400):
            n += 1
            if leaf.kind == "raised" and isinstance(leaf.value, (ValueError, KeyError, TypeError, AttributeError)) and type(leaf.value).__module__ == "builtins":
                job.record(tag + "/leaf%d" % n, "discharged", "raises %s: %s" % (type(leaf.value).__name__, str(leaf.value)[:60]))
            elif leaf.kind == "cut":
                job.record(tag + "/leaf%d" % n, "inconclusive", "flux-loop bound reached without a rejection")
            else:
                # a returning (or otherwise ending) leaf: is it reachable?
                job.prove(tag + "/leaf%d_does_not_return" % n, dom + leaf.pc, z3.BoolVal(True), R_, {"entry": entry, "Tp": Tp.t, "Pp": Pp.t}, fallback=[{"entry": entry}])
        if n == 0:
            job.vacuity["failed"].append(tag + ": no path")
        # twin: the same call with a valid specification (permeate temperature only) has a returning leaf
        ok = False
        for leaf in job.explore(lambda: (cnt.reset(), call(Tp, None))[1], dom + [Tp.t > 120, Tp.t <= T.t], timeout_ms=200, max_paths=400):
            if leaf.kind == "returned":
                ok = True
                break
        job.vacuity["checked"] += 1
        if not ok:
            job.vacuity["failed"].append(tag + ": the valid twin never returns")


MODEL_ENTRY = ("driving_force", "flux_solver", "permeate_composition", "separation_factor", "ideal_curve", "non_ideal_curve") + proc.KINDS


def concrete_after_valid(inp):
    """rejection is a matter of the specification handed in, not of what the interpreter computed before: the valid call with the complete
    built-in mixture first, then the same call at the same arguments with a mixture of the same name that lacks the requested model's
    parameters -- a labelled concrete point (a call history; module- or object-level state has no counterpart in one lifted call)"""
    import warnings
    e = inp["missing_model_entry"]
    bad = []
    for model, without in (("UNIQUAC", "uniquac"),):
        for tp, pp in ((None, None), (293.15, None), (None, 1.0)):
            with warnings.catch_warnings():
                warnings.simplefilter("ignore")
                try:
                    _call_real(e, both=True, Tp=tp, Pp=pp, model=model)
                except Exception:
                    continue  # the valid call itself is not the subject here
                try:
                    _call_real(e, both=True, Tp=tp, Pp=pp, model=model, without=without)
                    bad.append("%s accepted calculation_type=%r for a mixture without %s parameters after the same call with a complete mixture "
                               "of the same name (permeate T=%r, p=%r)" % (e, model, model, tp, pp))
                    break
                except (ValueError, KeyError, TypeError, AttributeError):
                    pass
    return {"ok": not bad, "detail": "; ".join(bad), "inputs": inp}


def missing_model(job, entry):
    """an activity model whose parameters are missing is rejected by every entry point that computes a driving force, not only by the
    thermodynamic functions: UNIQUAC requested for a mixture that has NRTL parameters only (real calculate_activity_coefficients)"""
    job.bound(steps_or_points=1)
    job.stub("PSAT_i, HVAP/CP/COOL", "PERM_i(T) (stub membrane)", "find_best_fit -> symbolic function (non-ideal entry points)")
    job.assume("valid permeate specification (a permeate temperature)", "the symbolic mixture has NRTL parameters and no UNIQUAC parameters")
    model = "UNIQUAC"
    ps = proc.ProcSetup("non_ideal_isothermal_process" if entry not in proc.KINDS else entry, "ptemp", "weight", None, 1, n_curves=2, model=model)
    Tp = ps.Tp
    T, x, y, prec, dx = ps.T0, ps.x0, real("y"), ps.prec, real("dx")
    dom = ps.domain() + [y.t > 0, y.t < 1, dx.t > 0, dx.t < 1]
    pz = ps.pz
    P = lambda: (build.perm(real("P1")), build.perm(real("P2")))
    comp = lambda: build.comp(x, "weight")

    def call():
        if entry == "driving_force":
            return pz.get_partial_fluxes_from_permeate_composition(P()[0], P()[1], build.comp(y, "weight"), comp(), T, Tp, None, model)
        if entry == "flux_solver":
            return pz.calculate_partial_fluxes(T, comp(), prec, Tp, None, *P(), calculation_type=model)
        if entry == "permeate_composition":
            return pz.calculate_permeate_composition(T, comp(), prec, Tp, None, model)
        if entry == "separation_factor":
            return pz.calculate_separation_factor(T, comp(), Tp, None, prec, model)
        if entry == "ideal_curve":
            return pz.ideal_diffusion_curve(T, [comp()], Tp, None, prec, model)
        if entry == "non_ideal_curve":
            return pz.non_ideal_diffusion_curve(ps.curves, T, comp(), dx, 1, Tp, None, None, prec, model, 1, 1, 1, 1)
        return ps.run()

    tag = "C19/missing_model/%s" % proc.SHORT.get(entry, entry)
    with Patches() as pt:
        build.stub_thermo(pt, ps.mix, gamma=False, psat=True, heats=True)
        ps.install(pt, validator="real", flux="real", heats=False, clamp="real")
        cnt = flux.LoopCounter(pt, 2)
        n = 0
        for leaf in job.explore(lambda: (cnt.reset(), call())[1], dom, timeout_ms=200, max_paths=200):
            n += 1
            if leaf.kind == "raised" and isinstance(leaf.value, (ValueError, KeyError, TypeError, AttributeError)) and type(leaf.value).__module__ == "builtins":
                job.record(tag + "/leaf%d" % n, "discharged", "raises %s: %s" % (type(leaf.value).__name__, str(leaf.value)[:60]))
            else:
                job.prove(tag + "/leaf%d_does_not_end_without_rejection" % n, dom + leaf.pc, z3.BoolVal(True), R_, {"missing_model_entry": entry},
                          fallback=[{"missing_model_entry": entry}])
        if n == 0:
            job.vacuity["failed"].append(tag + ": no path")
    job.refute_concretely(tag + "/after_the_valid_call_with_a_like_named_complete_mixture", "vf.props.C19:concrete_after_valid", {"missing_model_entry": entry})


def _incomplete(cls, symbolic=True, x=0.4, T=333.15):
    S = build.S if symbolic else float
    c1, c2 = (build.sym_component("1", uniquac=True), build.sym_component("2", uniquac=True)) if symbolic else (Mixtures.H2O_EtOH.first_component, Mixtures.H2O_EtOH.second_component)
    T = real("T") if symbolic else T
    x = real("x") if symbolic else x
    comp = (build.comp(x, "molar") if symbolic else mixmod.Composition(x, "molar"))
    nrtl = pv.NRTLParameters(g12=S(1000.0), g21=S(500.0), alpha12=S(0.3))
    uq = pv.UNIQUACParameters(alpha_12=S(1.0), alpha_21=S(2.0), beta_12=S(0.1), beta_21=S(0.2), z=10)
    if cls == "mixture_without_parameters":
        return pv.Mixture(name="m", first_component=c1, second_component=c2)
    if cls == "nrtl_parameters_missing":
        return mixmod.calculate_activity_coefficients(T, pv.Mixture("m", c1, c2, uniquac_params=uq), comp, "NRTL")
    if cls == "nrtl_parameters_missing_partial_pressures":
        return mixmod.get_partial_pressures(T, pv.Mixture("m", c1, c2, uniquac_params=uq), comp, "NRTL")
    if cls == "uniquac_parameters_missing":
        return mixmod.calculate_activity_coefficients(T, pv.Mixture("m", c1, c2, nrtl_params=nrtl), comp, "UNIQUAC")
    if cls in ("uniquac_constants_missing_first", "uniquac_constants_missing_second"):
        import copy
        a, b = copy.copy(c1), copy.copy(c2)
        if cls.endswith("first"):
            a.uniquac_constants = None
        else:
            b.uniquac_constants = None
        return mixmod.calculate_activity_coefficients(T, pv.Mixture("m", a, b, nrtl_params=nrtl, uniquac_params=uq), comp, "UNIQUAC")
    if cls == "curve_without_fluxes_and_permeances":
        mix = pv.Mixture("m", c1, c2, nrtl_params=nrtl)
        return DiffusionCurve(mixture=mix, membrane_name="m", feed_temperature=T, feed_compositions=[comp])
    if cls in ("single_experiment_no_energy_activation", "single_experiment_no_energy_permeance"):
        Te = real("Texp") if symbolic else 323.15
        ex = IdealExperiment(name="m", temperature=Te, component=c1, permeance=build.perm(real("Pe")) if symbolic else pv.Permeance(0.03))
        mem = Membrane(name="m", ideal_experiments=IdealExperiments(experiments=[ex]))
        if cls.endswith("activation"):
            return mem.calculate_activation_energy(c1)
        return mem.get_permeance(T, c1)
    if cls in ("one_experiment_per_component_no_energy_activation", "one_experiment_per_component_no_energy_permeance"):
        # the membrane has two experiments in total, but only one for the queried component
        Te = real("Texp") if symbolic else 323.15
        Te2 = real("Texp2") if symbolic else 333.15
        exps = [IdealExperiment(name="m", temperature=Te, component=c1, permeance=build.perm(real("Pe")) if symbolic else pv.Permeance(0.03)),
                IdealExperiment(name="m", temperature=Te2, component=c2, permeance=build.perm(real("Pe2")) if symbolic else pv.Permeance(0.002))]
        mem = Membrane(name="m", ideal_experiments=IdealExperiments(experiments=exps))
        if cls.endswith("activation"):
            return mem.calculate_activation_energy(c1)
        return mem.get_permeance(T, c1)
    raise KeyError(cls)


def concrete_csv(inp):
    """a membrane loaded from ideal_experiments.csv whose activation_energy cell is EMPTY has no stated energy: with fewer than two
    experiments of the component an off-temperature query must be rejected (concrete point: an empty cell is a NaN, outside real arithmetic)"""
    import os
    import shutil
    import tempfile
    import warnings
    d = tempfile.mkdtemp(prefix="c19_", dir=os.environ.get("TMPDIR"))
    bad = []
    try:
        with open(os.path.join(d, "ideal_experiments.csv"), "w") as f:
            f.write("name,temperature,component,activation_energy,permeance,units,comment\n")
            f.write("m,320.0,H2O,,0.05,kg/(m2*h*kPa),x\n")
            if inp.get("rows", 1) == 2:
                f.write("m,330.0,EtOH,,0.002,kg/(m2*h*kPa),x\n")
        with warnings.catch_warnings():
            warnings.simplefilter("ignore")
            mem = Membrane.load(d)
            c = Mixtures.H2O_EtOH.first_component
            for what, call in (("calculate_activation_energy", lambda: mem.calculate_activation_energy(c)), ("get_permeance(334 K)", lambda: mem.get_permeance(334.0, c)),
                               ("get_estimated_pure_component_flux(334 K)", lambda: mem.get_estimated_pure_component_flux(334.0, c))):
                try:
                    r = call()
                    bad.append("%s on a membrane loaded from a CSV with one H2O experiment and an empty activation-energy cell returned %r" % (what, getattr(r, "value", r)))
                except Exception:
                    pass
    finally:
        shutil.rmtree(d, ignore_errors=True)
    return {"ok": not bad, "detail": "; ".join(bad[:2]), "inputs": inp}


CLASSES = ("one_experiment_per_component_no_energy_activation", "one_experiment_per_component_no_energy_permeance","mixture_without_parameters", "nrtl_parameters_missing", "nrtl_parameters_missing_partial_pressures", "uniquac_parameters_missing",
           "uniquac_constants_missing_first", "uniquac_constants_missing_second", "curve_without_fluxes_and_permeances",
           "single_experiment_no_energy_activation", "single_experiment_no_energy_permeance")


def incomplete(job):
    job.bound(classes=list(CLASSES))
    for cls in CLASSES:
        dom = []
        T, x, Te = real("T"), real("x"), real("Texp")
        dom = [T.t > 260, T.t < 420, x.t >= 0, x.t <= 1, Te.t > 273, Te.t < 400, real("Pe").t > 0]
        if cls in ("single_experiment_no_energy_permeance", "one_experiment_per_component_no_energy_permeance"):
            dom.append(T.t != Te.t)  # off the experiment's temperature
        dom += [real("Texp2").t > 273, real("Texp2").t < 400, real("Pe2").t > 0]
        n = 0
        for leaf in job.explore(lambda: _incomplete(cls), dom, timeout_ms=300):
            n += 1
            tag = "C19/incomplete/%s/leaf%d" % (cls, n)
            if leaf.kind == "raised" and isinstance(leaf.value, (ValueError, KeyError)):
                job.record(tag, "discharged", "raises %s: %s" % (type(leaf.value).__name__, str(leaf.value)[:60]))
            else:
                job.prove(tag + "_does_not_return", dom + leaf.pc, z3.BoolVal(True), R_, {"class": cls, "x": x.t, "T": T.t}, fallback=[{"class": cls}])
        if n == 0:
            job.vacuity["failed"].append(cls)
    # the same class through the CSV loader (empty cell = no stated energy); concrete points, labelled as such
    for rows in (1, 2):
        job.refute_concretely("C19/incomplete/csv_empty_activation_energy/rows%d" % rows, "vf.props.C19:concrete_csv", {"rows": rows})
    # twins: complete specifications return
    job.vacuity["checked"] += 1
    c1, c2 = build.sym_component("1", uniquac=True), build.sym_component("2", uniquac=True)
    full = build.sym_mixture(c1, c2, uniquac=True)
    T, x = real("T"), real("x")
    for model in ("NRTL", "UNIQUAC"):
        ok = any(l.kind == "returned" for l in job.explore(lambda: mixmod.calculate_activity_coefficients(T, full, build.comp(x, "molar"), model),
                                                           [T.t > 273, T.t < 400, x.t > 0, x.t < 1]))
        if not ok:
            job.vacuity["failed"].append("complete %s specification does not return" % model)


JOB_TIMEOUT = {"quick": 400, "thorough": 1800}


XHAIR = '''
import pyvaporation as pv
from pyvaporation.components import Components
from pyvaporation.diffusion_curve import DiffusionCurve
from pyvaporation.mixtures import Mixtures
from pyvaporation.mixtures.mixture import Composition


def mixture_without_parameters_rejected(x: float) -> str:
    """
    raises: ValueError
    post: False
    """
    return pv.Mixture(name="m", first_component=Components.H2O, second_component=Components.EtOH).name


def curve_with_neither_fluxes_nor_permeances_rejected(t: float) -> float:
    """
    pre: 273 < t < 400
    raises: ValueError
    post: False
    """
    return DiffusionCurve(mixture=Mixtures.H2O_EtOH, membrane_name="m", feed_temperature=t, feed_compositions=[Composition(0.5, "weight")]).feed_temperature
'''


def crosshair(job):
    from .. import xhair
    xhair.run_contracts(job, "C19", XHAIR, timeout=30)


def jobs(tier):
    if tier == "thorough":
        return _jobs(tier) + [("crosshair", "crosshair", {})]
    return _jobs(tier)


BATTERY_EXTRA = ([("vf.props.C19:concrete", {"entry": e}) for e in ENTRY] + [("vf.props.C19:concrete", {"class": c}) for c in CLASSES]
                 + [("vf.props.C19:concrete", {"missing_model_entry": e}) for e in MODEL_ENTRY])


def _jobs(tier):
    js = [("both_%s_N%d" % (proc.SHORT.get(e, e), N), "both_specified", {"entry": e, "N": N}) for e in ENTRY for N in ((1,) if tier == "quick" else (1, 2))]
    js.append(("incomplete", "incomplete", {}))
    js += [("missing_model_%s" % proc.SHORT.get(e, e), "missing_model", {"entry": e}) for e in MODEL_ENTRY]
    return js

"""C16 -- curve fitting is pure, deterministic and returns the best candidate it tried."""
import itertools

import numpy
import z3

import pyvaporation as pv
from pyvaporation.mixtures import uniquac_fitting as uqf
from pyvaporation.optimizer import optimizer as opt
from pyvaporation.optimizer.optimizer import Measurement, Measurements, PervaporationFunction

from ..symx import lift, SReal, real, UF, rv, EXP, Pure
from .. import build, terms
from ..core import Patches, close

EXPLANATION = ("optimizer.fit / find_best_fit / objective / PervaporationFunction (from_array, __call__, __mul__) and the selection loop of "
               "fit_vle are executed on symbolic measurement points; scipy.optimize.minimize is replaced by FIT: a deterministic uninterpreted "
               "function of (the objective evaluated at a shared symbolic probe vector, x0, method) returning an arbitrary vector of the right "
               "length.  Checked on every leaf: the caller's Measurements (list identity, length, elements) is untouched, a repeated call gets "
               "the same answer (by congruence of FIT: the second call must present the same objective), the best-fit search tries the full "
               "(n, m) grid and returns a candidate whose loss on the caller's data is <= every candidate's, fit_vle returns parameters whose "
               "error is <= every method's, and the function value / scaling formulas.")
OUTSIDE = ("that Powell / SLSQP / ... are deterministic, terminate and find good optima (scipy is trusted); more points / higher orders than the "
           "bound; the UNIQUAC objective is an uninterpreted function of the parameter vector in the fit_vle check; float rounding")
R_ = "vf.props.C16:concrete"


def concrete(inp):
    """the real optimiser on a small real data set: purity and repeatability"""
    pts = [(0.1, 313.15, 0.031), (0.4, 313.15, 0.054), (0.8, 313.15, 0.097), (0.2, 333.15, 0.05), (0.6, 333.15, 0.11), (0.9, 333.15, 0.16)]
    bad = []
    for include_zero in (False, True):
        for ci in (0, 1):
            data = Measurements(data=[Measurement(*p) for p in pts])
            before = list(data.data)
            snap = [(m.x, m.t, m.p) for m in data.data]
            f1 = opt.fit(data, n=1, m=1, include_zero=include_zero, component_index=ci)
            after = [(m.x, m.t, m.p) for m in data.data]
            if len(data.data) != len(before) or after != snap or any(a is not b for a, b in zip(data.data, before)):
                bad.append("fit(include_zero=%s, component_index=%d) changed the caller's measurements: %d -> %d points" % (include_zero, ci, len(before), len(data.data)))
            f2 = opt.fit(data, n=1, m=1, include_zero=include_zero, component_index=ci)
            if not (f1.alpha == f2.alpha and list(f1.a) == list(f2.a) and list(f1.b) == list(f2.b)):
                bad.append("repeating fit(include_zero=%s, component_index=%d) on the same object gives other coefficients (%r vs %r)" % (include_zero, ci, f1.alpha, f2.alpha))
    data = Measurements(data=[Measurement(*p) for p in pts])
    n0 = len(data.data)
    best = opt.find_best_fit(data, include_zero=True, component_index=0, n=1, m=1)
    if len(data.data) != n0:
        bad.append("find_best_fit(include_zero=True) changed the caller's measurements: %d -> %d points" % (n0, len(data.data)))
    loss = lambda f: sum((f(m.x, m.t) - m.p) ** 2 for m in data.data[:n0])
    for n, m in itertools.product((0, 1), (0, 1)):
        cand = opt.fit(Measurements(data=[Measurement(*p) for p in pts]), n=n, m=m, include_zero=True, component_index=0)
        if loss(best) > loss(cand) * (1 + 1e-9) + 1e-15:
            bad.append("find_best_fit returned loss %r but the single fit n=%d m=%d has loss %r" % (loss(best), n, m, loss(cand)))
    f = PervaporationFunction(n=2, m=1, alpha=0.3, a=[0.2, -0.1], b=[1000.0, 50.0])
    import math
    x, t = 0.37, 321.0
    want = 0.3 * math.exp(0.2 * x + -0.1 * x ** 2 - (1000.0 + 50.0 * x) / t)
    if not close(f(x, t), want, 1e-12):
        bad.append("PervaporationFunction value %r, formula %r" % (f(x, t), want))
    if not close((f * 2.5)(x, t), 2.5 * want, 1e-12):
        bad.append("scaled function value")
    return {"ok": not bad, "detail": "; ".join(bad[:3]), "inputs": inp}


def concrete_best(inp):
    """find_best_fit on the real optimiser over a battery of small data sets: the returned function's squared error on the
    supplied data must not exceed that of any single fit within the requested orders"""
    import math
    import warnings
    bad = []
    shapes = [("decaying", lambda x: 0.4 * math.exp(-2 * x)), ("growing", lambda x: 0.02 * math.exp(1.5 * x)), ("flat", lambda x: 0.05 + 0.01 * x)]
    with warnings.catch_warnings():
        warnings.simplefilter("ignore")
        # more temperature terms requested than distinct temperatures: every (n', m') within the requested orders is a candidate
        for temps, (n, m) in (((313.15,), (0, 2)), ((313.15, 333.15), (0, 3)), ((313.15,), (1, 3))):
            pts = [(x, t, round(0.03 * math.exp(-1.2 * x) * (1 + 0.4 * (t - 313.15) / 20), 5)) for t in temps for x in (0.15, 0.45, 0.8)]
            tried, orig_fit = [], opt.fit

            def rec(data, n=None, m=None, include_zero=False, component_index=0, _o=orig_fit, _t=tried):
                _t.append((n, m))
                return _o(data, n=n, m=m, include_zero=include_zero, component_index=component_index)

            opt.fit = rec
            try:
                best = opt.find_best_fit(Measurements(data=[Measurement(*p) for p in pts]), n=n, m=m)
            finally:
                opt.fit = orig_fit
            missing = sorted(set((a, b) for a in range(n + 1) for b in range(m + 1)) - set(tried))
            if missing:
                bad.append("find_best_fit(n=%d, m=%d) on %d distinct temperature(s) never tried the orders %r" % (n, m, len(temps), missing))
            loss = lambda g: sum((g(p[0], p[1]) - p[2]) ** 2 for p in pts)
            for nn in range(n + 1):
                for mm in range(m + 1):
                    cand = opt.fit(Measurements(data=[Measurement(*p) for p in pts]), n=nn, m=mm)
                    if loss(best) > loss(cand) * (1 + 1e-9) + 1e-15:
                        bad.append("find_best_fit(n=%d, m=%d) on %d temperature(s) returned (%d, %d) with squared error %.6e, the single fit (%d, %d) has %.6e"
                                   % (n, m, len(temps), best.n, best.m, loss(best), nn, mm, loss(cand)))
            if bad:
                return {"ok": False, "detail": "; ".join(bad[:2]), "inputs": inp}
        for name, f in shapes:
            for temps in ((313.15,), (313.15, 333.15)):
                pts = [(x, t, round(f(x) * (1 + 0.3 * (t - 313.15) / 20), 4)) for t in temps for x in (0.1, 0.3, 0.5, 0.7, 0.9)]
                for include_zero in (True, False):
                    for ci in (1, 0):
                        n, m = 2, len(temps) - 1
                        data = Measurements(data=[Measurement(*p) for p in pts])
                        n0 = len(data.data)
                        best = opt.find_best_fit(data, include_zero=include_zero, component_index=ci, n=n, m=m)
                        if len(data.data) != n0:
                            bad.append("find_best_fit changed the caller's data (%d -> %d points)" % (n0, len(data.data)))
                        loss = lambda g: sum((g(p[0], p[1]) - p[2]) ** 2 for p in pts)
                        lb = loss(best)
                        for nn in range(n + 1):
                            for mm in range(m + 1):
                                cand = opt.fit(Measurements(data=[Measurement(*p) for p in pts]), n=nn, m=mm, include_zero=include_zero, component_index=ci)
                                if lb > loss(cand) * (1 + 1e-9) + 1e-15:
                                    bad.append("%s data at %r, include_zero=%s, component_index=%d: find_best_fit(n=%d, m=%d) returned orders (%d, %d) with squared error %.6e "
                                               "on the supplied data, the single fit (%d, %d) has %.6e" % (name, temps, include_zero, ci, n, m, best.n, best.m, lb, nn, mm, loss(cand)))
                        if bad:
                            return {"ok": False, "detail": "; ".join(bad[:2]), "inputs": inp}
    return {"ok": True, "detail": "best-of holds on the battery", "inputs": inp}


def concrete_vle(inp):
    """fit_vle on the repository's own VLE data: the returned parameters must not have a larger error than any single method"""
    import os
    import warnings
    from ..core import REPO
    bad = []
    with warnings.catch_warnings():
        warnings.simplefilter("ignore")
        for name in ("MeOH_DMC", "H2O_EtOH"):
            path = os.path.join(REPO, "tests", "VLE_data", "binary", name + ".csv")
            if not os.path.exists(path):
                continue
            data = uqf.VLEPoints.from_csv(path)
            n0 = len(data.data)
            best = uqf.fit_vle(data)
            if len(data.data) != n0:
                bad.append("fit_vle changed the caller's VLE points")
            arr = lambda p: [p.alpha_12, p.alpha_21, p.beta_12, p.beta_21, p.z]
            eb = float(uqf.objective(data, arr(best)))
            for alg in uqf.FITTING_ALGS:
                e = float(uqf.objective(data, arr(uqf.fit_vle(data, method=alg))))
                if eb > e * (1 + 1e-9) + 1e-12:
                    bad.append("%s: fit_vle() returns error %.6f, method %s alone reaches %.6f" % (name, eb, alg, e))
                    break
            if bad:
                break
    return {"ok": not bad, "detail": "; ".join(bad[:2]), "inputs": inp}


class FitStub:
    """deterministic uninterpreted optimiser: result = FIT_method,len,i(objective at the shared probe vector)"""

    def __init__(self, job, z_last=None):
        self.calls = []
        self.z_last = z_last
        job.stub("scipy.optimize.minimize -> FIT(method, len(x0), objective evaluated at a shared symbolic probe vector): arbitrary real vector")

    def __call__(self, fun, x0=None, method=None, **kw):
        k = len(x0)
        concrete_tail = self.z_last is not None
        probe = [real("probe%d_%d" % (k, i)) for i in range(k)]
        if concrete_tail:
            probe[-1] = self.z_last
        obj = fun(numpy.array(probe, dtype=object))
        key = z3.simplify(lift(obj))
        x = [SReal(UF("FIT_%s_%d_%d" % (str(method).replace("-", "_"), k, i), key)) for i in range(k)]
        if concrete_tail:
            x[-1] = self.z_last
        res = type("OptimizeResult", (), {})()
        res.x = numpy.array(x, dtype=object)
        self.calls.append({"k": k, "x0": list(x0), "method": method, "objective": key, "x": res.x})
        return res


def _points(npts, tag=""):
    return [Measurement(x=real("mx%d%s" % (i, tag)), t=real("mt%d%s" % (i, tag)), p=real("mp%d%s" % (i, tag))) for i in range(npts)]


def _dom(pts):
    d = []
    for m in pts:
        d += [m.x.t >= 0, m.x.t <= 1, m.t.t > 273, m.t.t < 400, m.p.t >= 0]
    return d


def purity(job, npts, include_zero, component_index, entry):
    job.bound(measurement_points=npts, orders_n_m=1)
    pts = _points(npts)
    dom = _dom(pts)
    tag = "C16/purity/%s/p%d/zero%d/c%d" % (entry, npts, int(include_zero), component_index)
    with Patches() as pt:
        stub = FitStub(job)
        pt.set(opt.optimize, "minimize", stub)

        def run():
            stub.calls.clear()
            data = Measurements(data=list(pts))
            lst = data.data
            if entry == "fit":
                r1 = opt.fit(data, n=1, m=1, include_zero=include_zero, component_index=component_index)
                r2 = opt.fit(data, n=1, m=1, include_zero=include_zero, component_index=component_index)
            else:
                r1 = opt.find_best_fit(data, include_zero=include_zero, component_index=component_index, n=1, m=1)
                r2 = opt.find_best_fit(data, include_zero=include_zero, component_index=component_index, n=1, m=1)
            return data, lst, r1, r2

        got = 0
        for leaf in job.explore(run, dom, timeout_ms=200, max_paths=3000):
            if leaf.kind != "returned":
                continue
            got += 1
            if got > (60 if job.tier == "quick" else 400):
                continue
            data, lst, r1, r2 = leaf.value
            same = data.data is lst and len(lst) == npts and all(a is b for a, b in zip(lst, pts))
            vals = all(m.x is p.x and m.t is p.t and m.p is p.p for m, p in zip(lst, pts)) if len(lst) == npts else False
            job.record("%s/leaf%d/measurements_untouched" % (tag, got), "discharged" if (same and vals) else "violated",
                       "caller's list has %d elements after the call (had %d)" % (len(lst), npts), replay={"fn": R_, "inputs": {"entry": entry}})
            cs = dom + leaf.conds()
            neg = [lift(r1.alpha) != lift(r2.alpha)] + [lift(p) != lift(q) for p, q in zip(r1.a, r2.a)] + [lift(p) != lift(q) for p, q in zip(r1.b, r2.b)]
            if len(r1.a) != len(r2.a) or len(r1.b) != len(r2.b):
                job.record("%s/leaf%d/repeatable" % (tag, got), "violated", "coefficient counts differ between two identical calls", replay={"fn": R_, "inputs": {"entry": entry}})
            else:
                job.prove("%s/leaf%d/repeatable" % (tag, got), cs, neg, R_, {"entry": entry}, fallback=[{"entry": entry}], timeout=20,
                          congruence=sorted({n for (_, n, _) in Pure.tab.values() if n.startswith("FIT_")}))
        if not got:
            job.unreached(tag)
        job.bound(**{"leaves_%s" % tag: got})


def best_of(job, npts, n, m, include_zero=False, component_index=0):
    """find_best_fit: full grid tried, returned candidate has minimal loss on the caller's data"""
    job.bound(measurement_points=npts, max_orders=(n, m))
    pts = _points(npts)
    dom = _dom(pts)
    tag = "C16/best_of/p%d/n%d/m%d/zero%d/c%d" % (npts, n, m, int(include_zero), component_index)
    with Patches() as pt:
        stub = FitStub(job)
        pt.set(opt.optimize, "minimize", stub)
        fits = []
        orig_fit = opt.fit

        def rec_fit(data, n=None, m=None, include_zero=False, component_index=0):
            f = orig_fit(data, n=n, m=m, include_zero=include_zero, component_index=component_index)
            fits.append(((n, m), f))
            return f

        pt.set(opt, "fit", rec_fit)
        # the loss of each candidate (a `sum([...])` over a list in find_best_fit) gets a fresh name, so that the comparisons
        # recorded in the path condition are comparisons of atoms; exponent sums (generators) are left alone
        from ..symx import named
        named_losses = []

        def naming_sum(it, *a):
            r = sum(it, *a)
            if isinstance(it, list) and isinstance(r, SReal):
                r = named(r, "loss")
                named_losses.append(r)
            return r

        pt.set(opt, "sum", naming_sum)

        def run():
            stub.calls.clear()
            fits.clear()
            named_losses.clear()
            data = Measurements(data=list(pts))
            best = opt.find_best_fit(data, include_zero=include_zero, component_index=component_index, n=n, m=m)
            return best, list(fits), list(named_losses)

        got = 0
        for leaf in job.explore(run, dom, timeout_ms=200, max_paths=3000):
            if leaf.kind != "returned":
                continue
            got += 1
            best, tried, nl = leaf.value
            grid = sorted(nm for nm, _ in tried)
            full = sorted(itertools.product(range(n + 1), range(m + 1)))
            job.record("%s/leaf%d/full_grid_tried" % (tag, got), "discharged" if grid == full else "violated", "orders tried %r" % (grid,),
                       replay={"fn": R_, "inputs": {"entry": "best"}})
            shapes_ok = all(len(f.a) == nm[0] and len(f.b) == nm[1] + 1 for nm, f in tried)
            job.record("%s/leaf%d/candidate_shapes" % (tag, got), "discharged" if shapes_ok else "violated", "coefficient counts per (n, m)", nontrivial=False,
                       replay={"fn": R_, "inputs": {"entry": "best"}})
            cs = dom + leaf.conds()
            idx = [i for i, (_, f) in enumerate(tried) if f is best]
            if len(nl) == len(tried) and idx:
                # the i-th named loss is the loss of the i-th candidate on the caller's data: check that against the statement's loss
                from .C05 import fit_value
                for ci, ((nm, f), v) in enumerate(zip(tried, nl)):
                    coef = {"alpha": f.alpha, "a": list(f.a), "b": list(f.b)}
                    want = z3.RealVal(0)
                    for mm in pts:
                        e = fit_value(coef, mm.x, mm.t) - mm.p.t
                        want = want + e * e
                    job.prove("%s/leaf%d/loss_of_candidate%d_is_squared_error_on_caller_data" % (tag, got, ci), cs, lift(v) != want, "vf.props.C16:concrete_best",
                              {"entry": "best"}, fallback=[{"entry": "best"}], timeout=20, congruence=["EXP"], near=1)
                lb = lift(nl[idx[0]])
                # only the recorded comparisons are needed: the (nonlinear) defining equalities of the named losses are left out
                # of the premises (dropping premises is sound for unsat and keeps the query linear)
                drop = {c.get_id() for c in leaf.assumed}
                order = [c for c in leaf.pc if c.get_id() not in drop]
                job.prove("%s/leaf%d/returned_is_best" % (tag, got), order, [lb > lift(v) for v in nl], R_, {"entry": "best"}, fallback=[{"entry": "best"}], timeout=30)
            else:
                job.record("%s/leaf%d/returned_is_best" % (tag, got), "violated" if not idx else "inconclusive",
                           "returned function is not one of the %d candidates" % len(tried) if not idx else "losses could not be named (%d sums for %d candidates)" % (len(nl), len(tried)),
                           replay={"fn": R_, "inputs": {"entry": "best"}})
        if not got:
            job.unreached(tag)


def vle(job, nalgs):
    """fit_vle: the returned parameters have an error <= every method's"""
    algs = uqf.FITTING_ALGS[:nalgs]
    job.bound(vle_methods=list(algs))
    job.stub("uniquac_fitting.objective -> VLEOBJ(parameter vector) (uninterpreted)", "fifth fitted parameter z kept concrete (from_array applies int())")
    tag = "C16/vle/%d_methods" % nalgs
    with Patches() as pt:
        stub = FitStub(job, z_last=10)
        pt.set(uqf.optimize, "minimize", stub)
        pt.set(uqf, "FITTING_ALGS", list(algs))
        pt.set(uqf, "objective", lambda data, params: SReal(UF("VLEOBJ", *[lift(p) for p in params], nonneg=True)))
        data = uqf.VLEPoints(components=[pv.Components.H2O, pv.Components.EtOH], data=[])
        got = 0
        for leaf in job.explore(lambda: (stub.calls.clear(), uqf.fit_vle(data))[1], [], timeout_ms=200, max_paths=2000):
            if leaf.kind != "returned":
                continue
            got += 1
            res = leaf.value
            cs = leaf.conds()
            ret = UF("VLEOBJ", lift(res.alpha_12), lift(res.alpha_21), lift(res.beta_12), lift(res.beta_21), rv(res.z), nonneg=True)
            per = [UF("VLEOBJ", *[lift(v) for v in c["x"]], nonneg=True) for c in stub.calls]
            job.prove("%s/leaf%d/returned_is_best" % (tag, got), cs, [ret > e for e in per], "vf.props.C16:concrete_vle", {"entry": "vle"}, fallback=[{"entry": "vle"}],
                      congruence=["VLEOBJ"], timeout=30)
            ok = sorted(c["method"] for c in stub.calls) == sorted(algs)
            job.record("%s/leaf%d/all_methods_tried" % (tag, got), "discharged" if ok else "violated", "methods %r" % [c["method"] for c in stub.calls], nontrivial=False,
                       replay={"fn": R_, "inputs": {"entry": "vle"}})
        if not got:
            job.unreached(tag)
        # with one requested method: that method only
        for leaf in job.explore(lambda: (stub.calls.clear(), uqf.fit_vle(data, method="Powell"))[1], [], timeout_ms=200):
            if leaf.kind == "returned":
                job.record(tag + "/single_method", "discharged" if [c["method"] for c in stub.calls] == ["Powell"] else "violated", "", nontrivial=False,
                           replay={"fn": R_, "inputs": {"entry": "vle"}})


def function(job, nmax, mmax):
    """PervaporationFunction.__call__ and __mul__ for all orders up to the bound"""
    job.bound(function_orders=(nmax, mmax))
    x, t, c = real("x"), real("t"), real("c")
    dom = [t.t > 0]
    for n in range(nmax + 1):
        for m in range(mmax + 1):
            arr = [real("k%d" % i) for i in range(2 + n + m)]
            tag = "C16/function/n%d/m%d" % (n, m)
            for leaf in job.explore(lambda: (PervaporationFunction.from_array(numpy.array(arr, dtype=object), n, m),), dom):
                if leaf.kind != "returned":
                    job.prove(tag + "/no_raise", dom + leaf.pc, z3.BoolVal(True), R_, {})
                    continue
                f = leaf.value[0]
                alpha, a, b = arr[0], arr[1:n + 1], arr[n + 1:]
                s = z3.RealVal(0)
                for i, ai in enumerate(a):
                    term = ai.t
                    for _ in range(i + 1):
                        term = term * x.t
                    s = s + term
                r = z3.RealVal(0)
                for i, bi in enumerate(b):
                    term = bi.t
                    for _ in range(i):
                        term = term * x.t
                    r = r + term
                want = alpha.t * EXP(s - r / t.t)
                for l2 in job.explore(lambda: (f(x, t), (f * c)(x, t)), dom):
                    if l2.kind != "returned":
                        continue
                    v, vc = l2.value
                    cs = dom + l2.conds()
                    job.prove(tag + "/value_formula", cs, lift(v) != want, R_, {}, congruence=["EXP"], fallback=[{}])
                    job.prove(tag + "/scaling", cs, lift(vc) != c.t * lift(v), R_, {}, congruence=["EXP"], fallback=[{}])
                ok = len(f.a) == n and len(f.b) == m + 1
                job.record(tag + "/coefficient_split", "discharged" if ok else "violated", "len(a)=%d len(b)=%d" % (len(f.a), len(f.b)), nontrivial=False,
                           replay={"fn": R_, "inputs": {}})


JOB_TIMEOUT = {"quick": 500, "thorough": 3000}


_HPTS = [(0.1, 313.15, 0.031), (0.4, 313.15, 0.054), (0.8, 313.15, 0.097), (0.2, 333.15, 0.05), (0.6, 333.15, 0.11), (0.9, 333.15, 0.16)]


def concrete_single(inp):
    """one fit, made first in its interpreter: the reference of concrete_history"""
    f = opt.fit(Measurements(data=[Measurement(*p) for p in _HPTS]), n=1, m=1, include_zero=bool(inp["include_zero"]), component_index=int(inp["component_index"]))
    return {"ok": True, "detail": "", "coef": [float(f.alpha)] + [float(v) for v in f.a] + [float(v) for v in f.b]}


def concrete_history(inp):
    """equal data give identical coefficients whatever was fitted before: the four (include_zero, component_index) fits of equal-valued
    data one after the other in one interpreter, each compared with the same fit made first in a fresh interpreter -- a labelled
    concrete point (a call history; scipy's optimiser is real here)"""
    from .. import core
    bad = []
    order = [(True, 0), (True, 1), (False, 1), (False, 0), (True, 1), (True, 0)]
    for iz, ci in order:
        f = opt.fit(Measurements(data=[Measurement(*p) for p in _HPTS]), n=1, m=1, include_zero=iz, component_index=ci)
        got = [float(f.alpha)] + [float(v) for v in f.a] + [float(v) for v in f.b]
        ref = core._replay_in_fresh_process("vf.props.C16:concrete_single", {"include_zero": iz, "component_index": ci})
        if not ref or "coef" not in ref:
            continue
        if len(got) != len(ref["coef"]) or not all(close(a, b, 1e-9, 1e-12) for a, b in zip(got, ref["coef"])):
            bad.append("fit(include_zero=%s, component_index=%d) after %d other fits of equal data gives %r, made first in a fresh interpreter %r"
                       % (iz, ci, order.index((iz, ci)), got, ref["coef"]))
    return {"ok": not bad, "detail": "; ".join(bad[:2]), "inputs": inp}


def history(job):
    job.bound(history_length=6)
    job.refute_concretely("C16/history/equal_data_equal_coefficients_whatever_was_fitted_before", "vf.props.C16:concrete_history", {})


def jobs(tier):
    js = [("history", "history", {})]
    npts = (3,) if tier == "quick" else (3, 4)
    for p in npts:
        for entry in ("fit", "find_best_fit"):
            for iz in (False, True):
                for ci in (0, 1):
                    if tier == "quick" and entry == "find_best_fit" and ci == 1:
                        continue
                    js.append(("purity_%s_p%d_z%d_c%d" % (entry, p, int(iz), ci), "purity", {"npts": p, "include_zero": iz, "component_index": ci, "entry": entry}))
    js.append(("best_of_p3_n1_m1", "best_of", {"npts": 3, "n": 1, "m": 1}))
    # more temperature terms requested than there are distinct temperatures (1 or 2 of them, by the coincidence pattern of the two points)
    js.append(("best_of_p2_n0_m2_c0", "best_of", {"npts": 2, "n": 0, "m": 2, "include_zero": False, "component_index": 0}))
    js.append(("best_of_p2_n1_m0_zero_c1", "best_of", {"npts": 2, "n": 1, "m": 0, "include_zero": True, "component_index": 1}))
    js.append(("best_of_p3_n1_m1_zero_c0", "best_of", {"npts": 3, "n": 1, "m": 1, "include_zero": True, "component_index": 0}))
    if tier == "thorough":
        js.append(("best_of_p3_n2_m1", "best_of", {"npts": 3, "n": 2, "m": 1}))
        js.append(("best_of_p4_n1_m1", "best_of", {"npts": 4, "n": 1, "m": 1}))
    js.append(("vle", "vle", {"nalgs": 4 if tier == "quick" else 9}))
    js.append(("function", "function", {"nmax": 2 if tier == "quick" else 3, "mmax": 2 if tier == "quick" else 3}))
    return js

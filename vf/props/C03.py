"""C03 -- heat balance: evaporation heat, self-cooling and temperature programme are exact."""
import z3

from ..symx import lift, SReal, UF
from .. import build, proc, realrun
from ..core import Patches, close
from .C01 import configs, N_TIER

EXPLANATION = ("Same lifted runs of the four process models as C01 (flux solver, permeance, latent heat HVAP_i(T), specific heat CP_i(T) "
               "as uninterpreted functions of (component, temperature)).  Per step: evaporation heat = sum_i J_i A dt HVAP_i(T_k)/M_i 1000; "
               "self-cooling update; programme value at k dt for the three programme kinds (the real TemperatureProgram.program runs); "
               "isothermal models keep T0; condensation heat is None iff no permeate temperature; isothermal vs non-isothermal twin agree at step 0.")
OUTSIDE = "step counts above the bound; the value of the condensation heat beyond the step-0 agreement of the isothermal / non-isothermal twins (the statement fixes only when it is reported); float rounding"
R_ = "vf.props.C03:concrete"


def concrete(inp):
    if not realrun.admissible_process(inp):
        return {"ok": True, "detail": "outside domain"}
    try:
        m, cond, pz = realrun.process(inp)
    except ValueError as e:
        return {"ok": True, "detail": "run rejected: %s" % e}
    mix = pz.mixture
    c1, c2 = mix.first_component, mix.second_component
    N, A, dt = int(inp["N"]), inp["A"], inp["dt"]
    iso = "non_isothermal" not in inp["kind"]
    bad = []
    for k in range(N):
        T = float(m.feed_temperature[k])
        j1, j2 = (float(v) for v in m.partial_fluxes[k])
        q = j1 * A * dt * c1.get_vaporisation_heat(T) / c1.molecular_weight * 1000 + j2 * A * dt * c2.get_vaporisation_heat(T) / c2.molecular_weight * 1000
        if not close(m.feed_evaporation_heat[k], q, 1e-9, 1e-12):
            bad.append("step %d: evaporation heat %r, sum of permeated mass x own latent heat = %r" % (k, m.feed_evaporation_heat[k], q))
        if (m.permeate_condensation_heat[k] is None) != (inp.get("Tp") is None):
            bad.append("step %d: condensation heat %r with permeate temperature %r" % (k, m.permeate_condensation_heat[k], inp.get("Tp")))
        if iso and not close(T, inp["T0"]):
            bad.append("isothermal model reports T[%d]=%r" % (k, T))
        if not iso and k + 1 < N:
            if cond.temperature_program is None:
                p = m.feed_compositions[k].p
                cp = p * c1.get_specific_heat(T) / c1.molecular_weight + (1 - p) * c2.get_specific_heat(T) / c2.molecular_weight
                want = T - m.feed_evaporation_heat[k] / (cp * m.feed_mass[k])
            else:
                want = _program_value(cond.temperature_program.type, list(cond.temperature_program.coefficients), (k + 1) * dt)
            if not close(m.feed_temperature[k + 1], want, 1e-9, 1e-9):
                bad.append("T[%d]=%r, expected %r" % (k + 1, m.feed_temperature[k + 1], want))
    return {"ok": not bad, "detail": "%s %s: %s" % (inp["kind"], inp.get("mixture"), "; ".join(bad[:3])), "inputs": inp}


def _program_value(kind, c, t):
    """the three temperature programmes as stated (independent of the repository's implementation)"""
    import math
    if kind == "polynomial":
        return sum(ci * t ** i for i, ci in enumerate(c))
    inner = sum(c[i] * t ** (i - 1) for i in range(1, len(c)))
    return c[0] * (math.exp(inner) if kind == "exponential" else math.log(inner))


def _twin_fallback(mode, program):
    """programmes that do NOT pass through the initial temperature at t = 0 (a fitted thermostat curve)"""
    out = realrun.proc_fallback(mode, program)
    if program:
        for f in out:
            f["tc0"] = f["tc0"] - 1.25
    return out


def concrete_twin(inp):
    """isothermal and non-isothermal models started from the same conditions agree at step 0"""
    if not realrun.admissible_process(inp):
        return {"ok": True, "detail": "outside domain"}
    fam = "non_ideal" if inp["kind"].startswith("non_ideal") else "ideal"
    try:
        a, _, _ = realrun.process(dict(inp, kind=fam + "_isothermal_process", program=None))
        b, _, _ = realrun.process(dict(inp, kind=fam + "_non_isothermal_process", program=inp.get("program")))
    except ValueError as e:
        return {"ok": True, "detail": "run rejected: %s" % e}
    bad = []
    for i in (0, 1):
        if not close(a.partial_fluxes[0][i], b.partial_fluxes[0][i], 1e-9):
            bad.append("flux%d at step 0: %r (isothermal) vs %r" % (i + 1, a.partial_fluxes[0][i], b.partial_fluxes[0][i]))
    if not close(a.feed_evaporation_heat[0], b.feed_evaporation_heat[0], 1e-9):
        bad.append("evaporation heat at step 0: %r (isothermal) vs %r (non-isothermal)" % (a.feed_evaporation_heat[0], b.feed_evaporation_heat[0]))
    ca, cb = a.permeate_condensation_heat[0], b.permeate_condensation_heat[0]
    if (ca is None) != (cb is None):
        bad.append("condensation heat reported by one model only")
    elif ca is not None and not close(ca, cb, 1e-9):
        bad.append("condensation heat at step 0: %r (isothermal) vs %r (non-isothermal)" % (ca, cb))
    return {"ok": not bad, "detail": "%s %s: %s" % (fam, inp.get("mixture"), "; ".join(bad)), "inputs": inp}


def _hv(i, T, M):
    return UF("HVAP%d" % i, T) / lift(M) * 1000


def heat(job, kind, mode, tier):
    Ns = N_TIER[tier]
    job.bound(process_steps_N=list(Ns))
    job.stub("FLUX(...) arbitrary real pair for Pervaporation.calculate_partial_fluxes", "PERM_i(T) >= 0 for Membrane.get_permeance",
             "HVAP_i(T), CP_i(T), COOL_i(t0,t1) for Component.get_vaporisation_heat / get_specific_heat / get_cooling_heat",
             "find_best_fit -> symbolic PervaporationFunction (non-ideal)", "EA_i for Membrane.calculate_activation_energy")
    job.assume("Composition validator and Permeance clamp as assumptions", "A, m0, dt > 0; 0 < x0 < 1; 273 < T0 < 400; denominators non-zero")
    job.bound(temperature_programme_coefficients=5)
    ps0 = None
    for basis, program, n_curves, init_perm in configs(kind, mode, tier):
        for N in Ns:
            ps = proc.ProcSetup(kind, mode, basis, program, N, n_curves=n_curves or 2, initial_permeances=bool(init_perm), ncoef=5)
            dom = ps.domain()
            inputs = ps.inputs()
            fb = [dict(f) for f in realrun.proc_fallback(mode, program)]
            tag = "C03/%s/%s/%s/%s/c%s/ip%d/N%d" % (proc.SHORT[kind], mode, basis, program or "noprog", n_curves or 0, int(bool(init_perm)), N)
            with Patches() as pt:
                ps.install(pt, name_state=True)
                got = 0
                for leaf in job.explore(ps.run, dom, timeout_ms=100):
                    if leaf.kind != "returned":
                        continue
                    m = leaf.value
                    if len(ps.calls) != N or any(len(v) != N for v in proc.series(m).values()):
                        job.record(tag + "/shape", "inconclusive", "series shape is the subject of C01")
                        continue
                    got += 1
                    cs = dom + leaf.conds()
                    A, dt = ps.A.t, ps.dt.t
                    job.prove(tag + "/starts_at_stated_temperature", cs, lift(m.feed_temperature[0]) != ps.T0.t, R_, inputs, fallback=fb)
                    for k in range(N):
                        J1, J2 = ps.calls[k][1]
                        Tk = lift(m.feed_temperature[k])
                        q = J1.t * A * dt * _hv(1, Tk, ps.M1) + J2.t * A * dt * _hv(2, Tk, ps.M2)
                        job.prove(tag + "/evaporation_heat/k%d" % k, cs, lift(m.feed_evaporation_heat[k]) != q, R_, inputs, fallback=fb,
                                  congruence=["HVAP1", "HVAP2"], near=2)
                        none = m.permeate_condensation_heat[k] is None
                        job.record(tag + "/condensation_reported/k%d" % k, "discharged" if none == (ps.Tp is None) else "violated",
                                   "condensation heat %s, permeate temperature %s" % ("None" if none else "value", "None" if ps.Tp is None else "given"),
                                   nontrivial=False, replay={"fn": R_, "inputs": dict(fb[0], kind=kind, mode=mode, basis=basis, program=program, N=N)})
                        if ps.isothermal:
                            job.prove(tag + "/isothermal/k%d" % k, cs, Tk != ps.T0.t, R_, inputs, fallback=fb)
                        elif k + 1 < N:
                            Tn = lift(m.feed_temperature[k + 1])
                            if program is None:
                                pk, mk = lift(m.feed_compositions[k].p), lift(m.feed_mass[k])
                                cp = pk * UF("CP1", Tk) / lift(ps.M1) + (1 - pk) * UF("CP2", Tk) / lift(ps.M2)
                                job.prove(tag + "/self_cooling/k%d" % k, cs, Tn != Tk - lift(m.feed_evaporation_heat[k]) / (mk * cp),
                                          R_, inputs, fallback=fb, congruence=["CP1", "CP2"], near=2)
                            else:
                                job.prove(tag + "/programme/k%d" % k, cs, Tn != ps.program_at((k + 1) * dt), R_, inputs, fallback=fb,
                                          congruence=["EXP", "LOG"], near=2)
                    job.twin_sat(tag + "/twin", cs)
                if not got:
                    job.unreached(tag)
    for f in realrun.proc_fallback(mode)[:1]:
        if kind.startswith("non_ideal") and tier == "quick":
            continue
        i = dict(f, kind=kind, mode=mode, N=3, basis="weight")
        m, cond, pz = realrun.process(i)
        job.validated("C03 run %s %s" % (kind, mode), len(m.feed_evaporation_heat) == 3)
    # the lifted runs treat the latent heat as HVAP_i(T) whichever equation the component's vapour pressure follows; that the models
    # take it per kilogram for a Frost-type component too is evaluated on the real code (labelled concrete points)
    if mode != "ppres" or tier == "thorough":
        f = dict(realrun.proc_fallback(mode)[0], kind=kind, mode=mode, N=3, basis="weight", frost=1)
        job.refute_concretely("C03/frost_component/%s/%s" % (proc.SHORT[kind], mode), R_, f)
        job.refute_concretely("C03/frost_component/%s/%s/twin" % (proc.SHORT[kind], mode), "vf.props.C03:concrete_twin", f)


def twin(job, family, mode, tier):
    """isothermal vs non-isothermal model started from the same conditions: equal fluxes and heats at step 0"""
    job.bound(twin_steps=1)
    kinds = [k for k in proc.KINDS if k.startswith(family + "_")]
    for basis, program in (("weight", None), ("molar", None), ("weight", "polynomial")):
        for n_curves, init_perm in (((None, None),) if family == "ideal" else ((2, False), (1, True))):
            a = proc.ProcSetup(kinds[0], mode, basis, None, 1, n_curves=n_curves or 2, initial_permeances=bool(init_perm))
            # the non-isothermal twin also with a temperature programme: step 0 is still the stated initial state
            b = proc.ProcSetup(kinds[1], mode, basis, program, 1, n_curves=n_curves or 2, initial_permeances=bool(init_perm), mix=a.mix, ncoef=3)
            # the twin shares every input object with the first run
            b.cond, b.curves, b.dt, b.prec, b.membrane = a.cond, a.curves, a.dt, a.prec, a.membrane
            b.pz = a.pz
            b.P0 = getattr(a, "P0", None)
            a.P0 = getattr(a, "P0", None)
            dom = a.domain() + (b.domain() if program else [])
            inputs = dict(b.inputs(), **a.inputs()) if program else a.inputs()
            fb = [dict(f, program=program) if program else dict(f) for f in _twin_fallback(mode, program)]
            tag = "C03/twin/%s/%s/%s/c%s/ip%d" % (family, mode, basis, n_curves or 0, int(bool(init_perm))) + ("/" + program if program else "")
            with Patches() as pt:
                a.install(pt)
                b.calls = a.calls

                def run():
                    a.cond.temperature_program = None
                    ma = a.run()
                    ja = list(a.calls)
                    a.cond.temperature_program = b.tprog  # shared Conditions object: the twin differs in the programme only
                    try:
                        mb = b.run()
                    finally:
                        a.cond.temperature_program = None
                    return ma, mb

                got = 0
                for leaf in job.explore(run, dom, timeout_ms=100):
                    if leaf.kind != "returned":
                        continue
                    got += 1
                    ma, mb = leaf.value
                    cs = dom + leaf.conds()
                    cg = ["HVAP1", "HVAP2", "PERM1", "PERM2"] + [n for (_, n, _) in __import__("vf.symx", fromlist=["Pure"]).Pure.tab.values() if n.startswith("FLUX")]
                    job.prove(tag + "/fluxes_step0", cs, [lift(ma.partial_fluxes[0][i]) != lift(mb.partial_fluxes[0][i]) for i in (0, 1)],
                              "vf.props.C03:concrete_twin", inputs, fallback=fb, congruence=sorted(set(cg)))
                    job.prove(tag + "/evaporation_heat_step0", cs, lift(ma.feed_evaporation_heat[0]) != lift(mb.feed_evaporation_heat[0]),
                              "vf.props.C03:concrete_twin", inputs, fallback=fb, congruence=sorted(set(cg)))
                    na, nb = ma.permeate_condensation_heat[0] is None, mb.permeate_condensation_heat[0] is None
                    if not na and not nb:
                        job.prove(tag + "/condensation_heat_step0", cs, lift(ma.permeate_condensation_heat[0]) != lift(mb.permeate_condensation_heat[0]),
                                  "vf.props.C03:concrete_twin", inputs, fallback=fb, congruence=sorted(set(cg + ["COOL1", "COOL2"])))
                    job.record(tag + "/condensation_reported_alike", "discharged" if na == nb else "violated", "", nontrivial=False,
                               replay={"fn": "vf.props.C03:concrete_twin", "inputs": dict(fb[0], kind=kinds[0], mode=mode, basis=basis, N=1)})
                if not got:
                    job.unreached(tag)


JOB_TIMEOUT = {"quick": 400, "thorough": 3000}


def jobs(tier):
    js = [("%s_%s" % (proc.SHORT[k], mode), "heat", {"kind": k, "mode": mode, "tier": tier}) for k in proc.KINDS for mode in proc.MODES]
    js += [("twin_%s_%s" % (fam, mode), "twin", {"family": fam, "mode": mode, "tier": tier}) for fam in ("ideal", "non_ideal") for mode in proc.MODES]
    return js

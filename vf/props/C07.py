"""C07 -- results do not depend on mole- vs mass-fraction input basis."""
import warnings

import z3

import pyvaporation as pv
from pyvaporation.diffusion_curve import DiffusionCurve, DiffusionCurveSet
from pyvaporation.mixtures import Mixtures
from pyvaporation.mixtures import mixture as mixmod
from pyvaporation.optimizer.optimizer import Measurements
from pyvaporation.pervaporation.pervaporation import Pervaporation

from ..symx import lift, SReal, real, Pure
from .. import build, flux, proc, realrun
from ..core import Patches, close

EXPLANATION = ("Every modelling entry point is executed twice inside one exploration: with Composition(x, molar) and with the equivalent "
               "Composition(w(x), weight), w(x) = M1 x / (M1 x + M2 (1-x)); callees are uninterpreted functions of their arguments, so the "
               "two runs agree exactly when they ask the same questions.  Flux solver and helpers (real loop, K iterations), ideal curve and "
               "its metrics, four process models (initial feed basis), non-ideal curve (initial feed basis), measurement extraction from a "
               "molar vs an equivalent mass-fraction curve (points compared, not fits).")
OUTSIDE = "flux-loop exits after more than K iterations; process steps above the bound; the optimiser (only the measurement points handed to it are compared)"
K_TIER = {"quick": 1, "thorough": 2}
CG = ["GAMMA1_NRTL", "GAMMA2_NRTL", "GAMMA1_UNIQUAC", "GAMMA2_UNIQUAC", "PSAT1", "PSAT2", "PERM1", "PERM2"]


def concrete_entry(inp):
    T, x = inp.get("T"), inp.get("x")
    if T is None or x is None or not (273 < T < 400 and 0 < x < 1):
        return {"ok": True, "detail": "outside domain"}
    model = inp.get("model", "NRTL")
    Tp, Pp = inp.get("Tp"), inp.get("Pp")
    prec = 1e-9
    bad = []
    for name in ([inp["mixture"]] if inp.get("mixture") else ["H2O_EtOH", "MeOH_MTBE"]):
        mix = getattr(Mixtures, name)
        pz = Pervaporation(realrun.membrane_for(mix), mix)
        cm = mixmod.Composition(x, "molar")
        cw = cm.to_weight(mix)
        try:
            with warnings.catch_warnings():
                warnings.simplefilter("ignore")
                res = []
                for c in (cm, cw):
                    j = pz.calculate_partial_fluxes(T, c, prec, Tp, Pp, calculation_type=model)
                    pc = pz.calculate_permeate_composition(T, c, prec, Tp, Pp, model)
                    sf = pz.calculate_separation_factor(T, c, Tp, Pp, prec, model)
                    dc = pz.ideal_diffusion_curve(T, [c], Tp, Pp, prec, model)
                    res.append({"flux1": j[0], "flux2": j[1], "permeate": pc.p, "separation factor": sf, "curve flux1": dc.partial_fluxes[0][0],
                                "curve permeance1": dc.permeances[0][0].value, "curve permeance2": dc.permeances[0][1].value,
                                "curve separation factor": dc.get_separation_factor[0], "curve psi": dc.get_psi[0], "curve selectivity": dc.get_selectivity[0]})
        except ValueError:
            continue
        for k in res[0]:
            if not close(res[0][k], res[1][k], 1e-6):
                bad.append("%s %s %s: %r (molar input) vs %r (mass input)" % (name, model, k, float(res[0][k]), float(res[1][k])))
    return {"ok": not bad, "detail": "; ".join(bad[:3]), "inputs": inp}


def concrete_same_number(inp):
    """the basis tag decides, not the number: one model object is asked about the number x as a mass fraction and then about the same
    number as a mole fraction; the second answer must be that of the equivalent mass fraction asked of a fresh object -- a labelled
    concrete point (a two-call history on one object)"""
    T, x = inp.get("T") or 333.15, inp.get("x") or 0.3
    model = inp.get("model", "NRTL")
    Tp, Pp = inp.get("Tp"), inp.get("Pp")
    prec = 1e-9
    bad = []
    for name in ([inp["mixture"]] if inp.get("mixture") else ["H2O_EtOH", "MeOH_MTBE"]):
        mix = getattr(Mixtures, name)

        def ask(pz, c):
            with warnings.catch_warnings():
                warnings.simplefilter("ignore")
                j = pz.calculate_partial_fluxes(T, c, prec, Tp, Pp, calculation_type=model)
                pc = pz.calculate_permeate_composition(T, c, prec, Tp, Pp, model)
                sf = pz.calculate_separation_factor(T, c, Tp, Pp, prec, model)
                dc = pz.ideal_diffusion_curve(T, [c], Tp, Pp, prec, model)
            return {"flux1": j[0], "flux2": j[1], "permeate": pc.p, "separation factor": sf, "curve flux1": dc.partial_fluxes[0][0],
                    "curve permeance1": dc.permeances[0][0].value}
        try:
            shared = Pervaporation(realrun.membrane_for(mix), mix)
            ask(shared, mixmod.Composition(x, "weight"))
            got = ask(shared, mixmod.Composition(x, "molar"))
            want = ask(Pervaporation(realrun.membrane_for(mix), mix), mixmod.Composition(x, "molar").to_weight(mix))
        except ValueError:
            continue
        for k in got:
            if not close(got[k], want[k], 1e-6):
                bad.append("%s %s %s: %r for the mole fraction %r asked after the mass fraction %r on the same object, %r for the equivalent mass "
                           "fraction on a fresh object" % (name, model, k, float(got[k]), x, x, float(want[k])))
    return {"ok": not bad, "detail": "; ".join(bad[:3]), "inputs": inp}


def entry_points(job, mode, model, K):
    job.bound(flux_iterations_K=K, curve_points=1)
    job.stub("GAMMA_i^model(T, x) > 0", "PSAT_i(T) > 0", "PERM_i(T) >= 0")
    job.assume("Composition validator as assumption", "domain of C02", "denominators non-zero")
    fs = flux.FluxSetup(mode, model)
    fs.pz.membrane = build.StubMembrane(fs.mix)
    dom = fs.domain()
    inputs = fs.inputs()
    fb = [dict(f, model=model) for f in flux.fallback_for(mode)]
    R_ = "vf.props.C07:concrete_entry"
    tag = "C07/entry/%s/%s" % (mode, model)
    # fs.x is the mass fraction; the molar twin is its conversion, built exactly as Composition.to_molar builds it
    xm = build.S(build.x_of_w(fs.x, fs.M1, fs.M2))
    with Patches() as pt:
        build.stub_thermo(pt, fs.mix)
        build.assume_validator(pt)
        cnt = flux.LoopCounter(pt, K)

        Pure.eager = set(CG)
        wcomp = lambda: build.comp(fs.x, "weight")
        mcomp = lambda: build.comp(xm, "molar")

        def solver_(c):
            cnt.reset()
            return fs.pz.calculate_partial_fluxes(fs.T, c, fs.prec, fs.Tp, fs.Pp, build.perm(fs.P1), build.perm(fs.P2), model)

        def pc_(c):
            cnt.reset()
            return fs.pz.calculate_permeate_composition(fs.T, c, fs.prec, fs.Tp, fs.Pp, model)

        def sf_(c):
            cnt.reset()
            return fs.pz.calculate_separation_factor(fs.T, c, fs.Tp, fs.Pp, fs.prec, model)

        def dc_(c):
            cnt.reset()
            dc = fs.pz.ideal_diffusion_curve(fs.T, [c], fs.Tp, fs.Pp, fs.prec, model)
            return dc, dc.get_separation_factor, dc.get_psi, dc.get_selectivity

        def pairs_of(name, a, b):
            if name == "flux_solver":
                return {"flux_solver": [(a[0], b[0]), (a[1], b[1])]}
            if name == "permeate_composition":
                return {"permeate_composition": [(a.p, b.p)]}
            if name == "separation_factor":
                return {"separation_factor": [(a, b)]}
            (da, sfa, psa, sela), (db, sfb, psb, selb) = a, b
            return {"curve_fluxes": [(da.partial_fluxes[0][0], db.partial_fluxes[0][0]), (da.partial_fluxes[0][1], db.partial_fluxes[0][1])],
                    "curve_permeances": [(da.permeances[0][0].value, db.permeances[0][0].value), (da.permeances[0][1].value, db.permeances[0][1].value)],
                    "curve_separation_factor": [(sfa[0], sfb[0])], "curve_psi": [(psa[0], psb[0])], "curve_selectivity": [(sela[0], selb[0])]}

        for ename, f in (("flux_solver", solver_), ("permeate_composition", pc_), ("separation_factor", sf_), ("curve", dc_)):
            got = 0
            for leaf in job.explore(lambda: (f(mcomp()), f(wcomp())), dom, timeout_ms=500):
                if leaf.kind != "returned":
                    continue
                got += 1
                a, b = leaf.value
                cs = dom + leaf.conds()
                lemmas = []
                for name, eqs in pairs_of(ename, a, b).items():
                    st = job.prove("%s/%s" % (tag, name), cs + lemmas, [lift(p) != lift(q) for p, q in eqs], R_, inputs, fallback=fb, congruence=CG, timeout=30)
                    if st == "discharged":
                        lemmas += [lift(p) == lift(q) for p, q in eqs]
            if not got:
                job.unreached(tag)
    f = {k: v for k, v in fb[0].items() if k in ("T", "x", "Tp", "Pp", "model", "mixture")}
    job.refute_concretely("C07/entry/%s/%s/same_number_in_both_bases_on_one_object" % (mode, model), "vf.props.C07:concrete_same_number", f)


# ------------------------------------------------------------------------------------------------


def concrete_process(inp):
    if not realrun.admissible_process(inp):
        return {"ok": True, "detail": "outside domain"}
    mix = realrun.mixture_of(inp)
    cm = mixmod.Composition(inp["x0"], "molar")
    w = cm.to_weight(mix).p
    try:
        a, _, _ = realrun.process(dict(inp, basis="molar"))
        b, _, _ = realrun.process(dict(inp, basis="weight", x0=w))
    except ValueError as e:
        return {"ok": True, "detail": "run rejected: %s" % e}
    bad = []
    for k in range(len(a.time)):
        for name, p, q in (("flux1", a.partial_fluxes[k][0], b.partial_fluxes[k][0]), ("feed composition", a.feed_compositions[k].p, b.feed_compositions[k].p),
                           ("permeance1", a.permeances[k][0].value, b.permeances[k][0].value), ("permeance2", a.permeances[k][1].value, b.permeances[k][1].value),
                           ("feed mass", a.feed_mass[k], b.feed_mass[k]), ("temperature", a.feed_temperature[k], b.feed_temperature[k]),
                           ("evaporation heat", a.feed_evaporation_heat[k], b.feed_evaporation_heat[k])):
            if not close(p, q, 1e-6):
                bad.append("step %d %s: %r (molar initial feed) vs %r (mass)" % (k, name, float(p), float(q)))
        if a.feed_compositions[k].type != "weight":
            bad.append("feed composition reported as %s" % a.feed_compositions[k].type)
    return {"ok": not bad, "detail": "%s %s: %s" % (inp["kind"], inp.get("mixture"), "; ".join(bad[:3])), "inputs": inp}


def processes(job, kind, mode, tier):
    N = 2 if tier == "quick" else 3
    job.bound(process_steps_N=N)
    job.stub("FLUX(...)", "PERM_i(T)", "HVAP/CP/COOL", "find_best_fit -> symbolic function", "EA_i")
    R_ = "vf.props.C07:concrete_process"
    ideal = not kind.startswith("non_ideal")
    for init_perm, n_curves in (((False, 2),) if ideal else ((False, 2), (True, 1))):
        a = proc.ProcSetup(kind, mode, "molar", None, N, n_curves=n_curves, initial_permeances=init_perm)
        b = proc.ProcSetup(kind, mode, "weight", None, N, n_curves=n_curves, initial_permeances=init_perm, mix=a.mix)
        for nm in ("curves", "dt", "prec", "membrane", "pz", "A", "T0", "m0", "Tp", "Pp"):
            setattr(b, nm, getattr(a, nm))
        b.P0 = a.P0 = getattr(a, "P0", None)
        w0 = build.S(build.w_of_x(a.x0, a.M1, a.M2))
        b.cond = pv.Conditions(membrane_area=a.A, initial_feed_temperature=a.T0, initial_feed_amount=a.m0,
                               initial_feed_composition=build.comp(w0, "weight"), permeate_temperature=a.Tp, permeate_pressure=a.Pp)
        dom = a.domain()
        inputs = a.inputs()
        fb = [dict(f) for f in realrun.proc_fallback(mode, None)]
        tag = "C07/process/%s/%s/ip%d/c%d" % (proc.SHORT[kind], mode, int(init_perm), n_curves)
        with Patches() as pt:
            a.install(pt, name_state=True)
            b.calls = a.calls
            b.fit_calls, b.fits = a.fit_calls, a.fits

            def run():
                ma = a.run()
                return ma, b.run()

            got = 0
            for leaf in job.explore(run, dom, timeout_ms=100):
                if leaf.kind != "returned":
                    continue
                got += 1
                ma, mb = leaf.value
                cs = dom + leaf.conds()
                cg = sorted({n for (_, n, _) in Pure.tab.values() if n.split("_")[0] in ("FLUX1", "FLUX2") or n[:4] in ("HVAP", "PERM", "COOL") or n[:2] == "CP" or n in ("EXP", "LOG")})
                lemmas = []
                for k in range(N):
                    groups = [("composition", [(ma.feed_compositions[k].p, mb.feed_compositions[k].p)]),
                              ("mass", [(ma.feed_mass[k], mb.feed_mass[k])]),
                              ("temperature", [(ma.feed_temperature[k], mb.feed_temperature[k])]),
                              ("permeance1", [(ma.permeances[k][0].value, mb.permeances[k][0].value)]),
                              ("permeance2", [(ma.permeances[k][1].value, mb.permeances[k][1].value)]),
                              ("fluxes", [(ma.partial_fluxes[k][0], mb.partial_fluxes[k][0]), (ma.partial_fluxes[k][1], mb.partial_fluxes[k][1])]),
                              ("evaporation_heat", [(ma.feed_evaporation_heat[k], mb.feed_evaporation_heat[k])])]
                    for name, eqs in groups:
                        st = job.prove("%s/step%d/%s" % (tag, k, name), cs + lemmas, [lift(p) != lift(q) for p, q in eqs], R_, inputs, fallback=fb,
                                       congruence=cg, timeout=30, near=2)
                        if st == "discharged":
                            lemmas += [lift(p) == lift(q) for p, q in eqs]
                ok = all(c.type == "weight" for c in ma.feed_compositions)
                job.record(tag + "/reports_mass_fractions", "discharged" if ok else "violated", "", nontrivial=False,
                           replay={"fn": R_, "inputs": dict(fb[0], kind=kind, mode=mode, N=N)})
            if not got:
                job.unreached(tag)


# ------------------------------------------------------------------------------------------------


def concrete_curve(inp):
    """non-ideal diffusion curve: initial feed as mole fraction vs the equivalent mass fraction"""
    mix = realrun.mixture_of(inp)
    pz = Pervaporation(realrun.membrane_for(mix), mix)
    curves = realrun.curve_set(mix, inp.get("n_curves", 2))
    x = inp.get("x0")
    if x is None or not 0.05 < x < 0.7:
        x = 0.2
    cm = mixmod.Composition(x, "molar")
    cw = cm.to_weight(mix)
    T = inp.get("T0") or 323.15
    kw = dict(diffusion_curve_set=curves, feed_temperature=T, delta_composition=0.05, number_of_steps=3, n_first=1, n_second=1)
    if len(curves.diffusion_curves) > 1:
        kw.update(m_first=1, m_second=1)
    if inp.get("initial_permeances"):
        kw["initial_permeances"] = (pv.Permeance(0.05), pv.Permeance(0.001))
    a = pz.non_ideal_diffusion_curve(initial_feed_composition=cm, **kw)
    b = pz.non_ideal_diffusion_curve(initial_feed_composition=cw, **kw)
    bad = []
    for k in range(len(a.feed_compositions)):
        for name, p, q in (("flux1", a.partial_fluxes[k][0], b.partial_fluxes[k][0]), ("permeance1", a.permeances[k][0].value, b.permeances[k][0].value),
                           ("permeance2", a.permeances[k][1].value, b.permeances[k][1].value), ("composition", a.feed_compositions[k].to_weight(mix).p, b.feed_compositions[k].to_weight(mix).p)):
            if not close(p, q, 1e-6):
                bad.append("point %d %s: %r (molar initial feed) vs %r (mass)" % (k, name, float(p), float(q)))
    return {"ok": not bad, "detail": "non_ideal_diffusion_curve %s: %s" % (mix.name, "; ".join(bad[:3])), "inputs": inp}


def nonideal_curve(job, mode, tier):
    N = 1 if tier == "quick" else 2
    job.bound(curve_steps=N)
    R_ = "vf.props.C07:concrete_curve"
    for init_perm, n_curves in ((False, 2), (True, 1)):
        a = proc.ProcSetup("non_ideal_isothermal_process", mode, "molar", None, 1, n_curves=n_curves, initial_permeances=init_perm)
        dx = real("dx")
        w0 = build.S(build.w_of_x(a.x0, a.M1, a.M2))
        dom = a.domain() + [dx.t > 0, dx.t < 1]
        inputs = a.inputs()
        tag = "C07/nonideal_curve/%s/ip%d/c%d" % (mode, int(init_perm), n_curves)
        with Patches() as pt:
            a.install(pt, name_state=False)
            build.stub_thermo(pt, a.mix)

            def one(comp):
                return a.pz.non_ideal_diffusion_curve(diffusion_curve_set=a.curves, feed_temperature=a.T0, initial_feed_composition=comp,
                                                      delta_composition=dx, number_of_steps=N, permeate_temperature=a.Tp, permeate_pressure=a.Pp,
                                                      initial_permeances=a.P0, precision=a.prec, n_first=1, n_second=1,
                                                      m_first=None if n_curves == 1 else 1, m_second=None if n_curves == 1 else 1)

            got = 0
            for leaf in job.explore(lambda: (one(build.comp(a.x0, "molar")), one(build.comp(w0, "weight"))), dom, timeout_ms=100):
                if leaf.kind != "returned":
                    continue
                got += 1
                ca, cb = leaf.value
                cs = dom + leaf.conds()
                cg = sorted({n for (_, n, _) in Pure.tab.values() if n.split("_")[0] in ("FLUX1", "FLUX2") or n in ("EXP", "LOG") or n[:4] in ("PSAT", "GAMM")})
                lemmas = []
                for k in range(len(ca.feed_compositions)):
                    for name, eqs in (("permeances", [(ca.permeances[k][0].value, cb.permeances[k][0].value), (ca.permeances[k][1].value, cb.permeances[k][1].value)]),
                                      ("fluxes", [(ca.partial_fluxes[k][0], cb.partial_fluxes[k][0]), (ca.partial_fluxes[k][1], cb.partial_fluxes[k][1])])):
                        st = job.prove("%s/point%d/%s" % (tag, k, name), cs + lemmas, [lift(p) != lift(q) for p, q in eqs], R_,
                                       dict(inputs, n_curves=n_curves, initial_permeances=init_perm), congruence=cg, timeout=30)
                        if st == "discharged":
                            lemmas += [lift(p) == lift(q) for p, q in eqs]
            if not got:
                job.unreached(tag)


# ------------------------------------------------------------------------------------------------


def concrete_measurements(inp):
    mix = realrun.mixture_of(inp)
    cw = realrun.curve_set(mix, 2, "weight")
    cm = realrun.curve_set(mix, 2, "molar")
    bad = []
    for f in ("from_diffusion_curves_first", "from_diffusion_curves_second"):
        a, b = getattr(Measurements, f)(cm), getattr(Measurements, f)(cw)
        for i, (p, q) in enumerate(zip(a.data, b.data)):
            if not (close(p.x, q.x, 1e-9) and close(p.t, q.t) and close(p.p, q.p, 1e-9)):
                bad.append("%s point %d: (x=%r, t=%r, p=%r) from the molar curve vs (x=%r, t=%r, p=%r) from the mass-fraction curve" % (f, i, p.x, p.t, p.p, q.x, q.t, q.p))
    return {"ok": not bad, "detail": "%s: %s" % (mix.name, "; ".join(bad[:2])), "inputs": inp}


def measurements(job):
    """measurement points extracted from a molar curve vs the same curve given in mass fractions"""
    job.bound(curves_per_set=2, points_per_curve=2)
    R_ = "vf.props.C07:concrete_measurements"
    mix = build.sym_mixture()
    M1, M2 = mix.first_component.molecular_weight, mix.second_component.molecular_weight
    dom = [M1.t > 0, M2.t > 0]

    def curve(c, basis):
        dc = build.bare(DiffusionCurve)
        dc.mixture, dc.membrane_name = mix, "stub"
        dc.feed_temperature = real("Tc%d" % c)
        xs = [real("cx%d_%d" % (c, i)) for i in range(2)]
        dom.extend([z3.And(x.t > 0, x.t < 1) for x in xs])
        dc.feed_compositions = [build.comp(x if basis == "molar" else build.S(build.w_of_x(x, M1, M2)), basis) for x in xs]
        dc.permeances = [(build.perm(real("cP1_%d_%d" % (c, i))), build.perm(real("cP2_%d_%d" % (c, i)))) for i in range(2)]
        dc.partial_fluxes = dc.permeate_temperature = dc.permeate_pressure = dc.comments = None
        return dc

    sm = DiffusionCurveSet(name="m", diffusion_curves=[curve(0, "molar"), curve(1, "molar")])
    sw = DiffusionCurveSet(name="w", diffusion_curves=[curve(0, "weight"), curve(1, "weight")])
    with Patches() as pt:
        build.assume_validator(pt)
        for f in ("from_diffusion_curves_first", "from_diffusion_curves_second", "from_diffusion_curve_first", "from_diffusion_curve_second"):
            arg = (sm, sw) if "curves" in f else (sm.diffusion_curves[0], sw.diffusion_curves[0])
            got = 0
            for leaf in job.explore(lambda: (getattr(Measurements, f)(arg[0]), getattr(Measurements, f)(arg[1])), dom):
                if leaf.kind != "returned":
                    continue
                got += 1
                a, b = leaf.value
                cs = dom + leaf.conds()
                if len(a.data) != len(b.data):
                    job.record("C07/measurements/%s/count" % f, "violated", "%d vs %d points" % (len(a.data), len(b.data)), replay={"fn": R_, "inputs": {}})
                    continue
                neg = []
                for p, q in zip(a.data, b.data):
                    neg += [lift(p.x) != lift(q.x), lift(p.t) != lift(q.t), lift(p.p) != lift(q.p)]
                job.prove("C07/measurements/%s" % f, cs, neg, R_, {"mixture": "H2O_EtOH"})
            if not got:
                job.vacuity["failed"].append(f)


JOB_TIMEOUT = {"quick": 400, "thorough": 2400}


def jobs(tier):
    K = K_TIER[tier]
    js = [("entry_%s_%s" % (mode, model), "entry_points", {"mode": mode, "model": model, "K": K}) for mode in flux.MODES for model in ("NRTL", "UNIQUAC")]
    js += [("proc_%s_%s" % (proc.SHORT[k], mode), "processes", {"kind": k, "mode": mode, "tier": tier}) for k in proc.KINDS for mode in proc.MODES]
    js += [("nonideal_curve_%s" % mode, "nonideal_curve", {"mode": mode, "tier": tier}) for mode in proc.MODES]
    js.append(("measurements", "measurements", {}))
    return js

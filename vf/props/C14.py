"""C14 -- permeance unit conversion is an exact, invertible change of units."""
import itertools

import z3

import pyvaporation as pv
from pyvaporation.permeance.permeance import Permeance, Units

from ..symx import real, lift, rv
from .. import build, terms
from ..core import close

EXPLANATION = ("Permeance.convert and the Permeance constructor (value clamp) are executed on symbolic value v, scale k and molar "
               "mass M for all 9 ordered unit pairs and 27 unit triples; results are compared with the oracle factors "
               "(SI=1, GPU=3.35e-10, kg=1/(3600 M)); missing component / unknown unit must raise on every leaf.")
OUTSIDE = "floating-point rounding; unit strings other than the three known ones plus two unknown probes ('bar', '')"

UNITS = [Units.kg_m2_h_kPa, Units.SI, Units.GPU]
SHORT = {Units.kg_m2_h_kPa: "kg", Units.SI: "SI", Units.GPU: "GPU"}
R = "vf.props.C14:concrete"


def factor(u, M):
    """oracle: value of one unit in SI"""
    if u == Units.SI:
        return z3.RealVal(1)
    if u == Units.GPU:
        return rv(3.35e-10)
    return 1 / (lift(M) * 3600)


def _ffactor(u, M):
    return {Units.SI: 1.0, Units.GPU: 3.35e-10}.get(u, 1 / (M * 3600.0))


def _fcomp(M, name=None):
    import attr
    c = attr.evolve(build.sym_component("f", sym=False), molecular_weight=float(M))
    if name is not None:
        c = attr.evolve(c, name=name)
    return c


def concrete(inp):
    v, M, k = inp.get("v"), inp.get("M"), inp.get("k", 2.0)
    bad = []
    if v is not None and v < 0:
        if Permeance(value=v).value < 0:
            bad.append("Permeance(%r).value negative" % v)
        return {"ok": not bad, "detail": "; ".join(bad)}
    if v is None or M is None or M <= 0:
        return {"ok": True, "detail": "outside domain"}
    c = _fcomp(M)
    for a, b in itertools.product(UNITS, UNITS):
        got = Permeance(v, a).convert(b, c)
        want = v * _ffactor(a, M) / _ffactor(b, M)
        if not close(got.value, want, 1e-9, 0) or got.units != b:
            bad.append("%s->%s of %r gives %r %s, expected %r" % (SHORT[a], SHORT[b], v, got.value, got.units, want))
        back = got.convert(a, c)
        if not close(back.value, v, 1e-9, 0):
            bad.append("%s->%s->%s of %r gives %r" % (SHORT[a], SHORT[b], SHORT[a], v, back.value))
        if k is not None and k >= 0 and not close(Permeance(k * v, a).convert(b, c).value, k * got.value, 1e-9, 0):
            bad.append("not linear %s->%s" % (SHORT[a], SHORT[b]))
        for m in UNITS:
            if not close(Permeance(v, a).convert(m, c).convert(b, c).value, got.value, 1e-9, 0):
                bad.append("path dependence %s->%s->%s" % (SHORT[a], SHORT[m], SHORT[b]))
    for a, b in itertools.product(UNITS, UNITS):
        if a != b and Units.kg_m2_h_kPa in (a, b):
            try:
                r = Permeance(v, a).convert(b)
                bad.append("%s->%s without component returned %r" % (SHORT[a], SHORT[b], r.value))
            except (ValueError, KeyError):
                pass
    # the factor belongs to the component handed in, not to an earlier one of the same name (heavy water next to water, a corrected record)
    for Mb in (M * 1.1115, M * 0.5):
        first, second = _fcomp(M, "same name"), _fcomp(Mb, "same name")
        for a, b in ((Units.kg_m2_h_kPa, Units.SI), (Units.SI, Units.kg_m2_h_kPa), (Units.GPU, Units.kg_m2_h_kPa)):
            Permeance(v, a).convert(b, first)
            got = Permeance(v, a).convert(b, second).value
            want = v * _ffactor(a, Mb) / _ffactor(b, Mb)
            if not close(got, want, 1e-9, 0):
                bad.append("%s->%s of %r for a component of molar mass %r converted after a like-named one of %r: got %r, expected %r" % (SHORT[a], SHORT[b], v, Mb, M, got, want))
    for a in UNITS:
        for args in ((a, "bar"), ("bar", a)):
            try:
                r = Permeance(v, args[0]).convert(args[1], c)
                bad.append("unknown unit %s->%s returned %r" % (args[0], args[1], r.value))
            except (ValueError, KeyError):
                pass
    return {"ok": not bad, "detail": "; ".join(bad[:4])}


def conversions(job):
    job.bound(unit_pairs=9, unit_triples=27)
    job.assume("value v >= 0 (what the constructor guarantees), scale k >= 0, molar mass M > 0")
    v, k = real("v"), real("k")
    c = build.sym_component("1")
    M = c.molecular_weight
    dom = [v.t >= 0, k.t >= 0, M.t > 0]
    inputs = {"v": v.t, "k": k.t, "M": M.t}

    for a, b in itertools.product(UNITS, UNITS):
        tag = "C14/%s->%s" % (SHORT[a], SHORT[b])

        def run(a=a, b=b):
            p = build.perm(v, a)
            out = p.convert(b, c)
            scaled = build.perm(k * v, a).convert(b, c)
            back = out.convert(a, c)
            return p, out, scaled, back

        n = 0
        for leaf in job.explore(run, dom):
            if leaf.kind != "returned":
                job.prove(tag + "/no_raise", dom + leaf.pc, z3.BoolVal(True), R, inputs)
                continue
            n += 1
            p, out, scaled, back = leaf.value
            cs = dom + leaf.conds()
            job.prove(tag + "/factor", cs, lift(out.value) != v.t * factor(a, M) / factor(b, M), R, inputs)
            job.prove(tag + "/linear", cs, lift(scaled.value) != k.t * lift(out.value), R, inputs)
            job.prove(tag + "/round_trip", cs, lift(back.value) != v.t, R, inputs)
            job.prove(tag + "/non_negative", cs, lift(out.value) < 0, R, inputs)
            job.record(tag + "/units_tag", "discharged" if out.units == b else "violated", "units %r" % out.units,
                       nontrivial=False, replay={"fn": R, "inputs": {"v": 1.0, "M": 18.0, "k": 2.0}})
            if a == b:
                job.prove(tag + "/identity", cs, lift(out.value) != v.t, R, inputs)
            for kk in range(2):
                vv, mm = (1.0, 18.02) if kk == 0 else (job.rng.uniform(1e-6, 10), job.rng.uniform(10, 200))
                want = Permeance(vv, a).convert(b, _fcomp(mm)).value
                if not job.on_path(leaf, {"v": vv, "M1": mm, "k": 1.0}):
                    continue
                got = terms.evaluate(lift(out.value), {"v": vv, "M1": mm, "k": 1.0})
                job.validated(tag, close(want, got), "%r vs %r" % (want, got))
        if n == 0:
            job.vacuity["failed"].append(tag + ": no returning path")

    for a, m, b in itertools.product(UNITS, UNITS, UNITS):
        tag = "C14/%s->%s->%s" % (SHORT[a], SHORT[m], SHORT[b])

        def run3(a=a, m=m, b=b):
            return build.perm(v, a).convert(m, c).convert(b, c), build.perm(v, a).convert(b, c)

        for leaf in job.explore(run3, dom):
            if leaf.kind != "returned":
                job.prove(tag + "/no_raise", dom + leaf.pc, z3.BoolVal(True), R, inputs)
                continue
            via, direct = leaf.value
            job.prove(tag + "/path_independent", dom + leaf.conds(), lift(via.value) != lift(direct.value), R, inputs)

    # the two constants of the statement
    for a, val in ((Units.kg_m2_h_kPa, 1 / (M.t * 3600)), (Units.GPU, rv(3.35e-10))):
        for leaf in job.explore(lambda a=a: build.perm(build.S(1), a).convert(Units.SI, c), dom):
            if leaf.kind == "returned":
                job.prove("C14/one_%s_in_SI" % SHORT[a], dom + leaf.conds(), lift(leaf.value.value) != val, R, inputs)


def reuse(job):
    """conversion is a function of (value, units, component handed in): two components that share a name but not a molar mass, converted
    one after the other in one process, each get their own factor; so does the same pair in the opposite order"""
    import attr
    job.bound(conversions_in_sequence=3)
    v = real("v")
    ca = build.sym_component("1")
    cb = build.sym_component("2")
    cb.name = ca.name
    Ma, Mb = ca.molecular_weight, cb.molecular_weight
    dom = [v.t >= 0, Ma.t > 0, Mb.t > 0]
    inputs = {"v": v.t, "M": Ma.t}
    for a, b in ((Units.kg_m2_h_kPa, Units.SI), (Units.SI, Units.kg_m2_h_kPa), (Units.kg_m2_h_kPa, Units.GPU), (Units.GPU, Units.kg_m2_h_kPa)):
        tag = "C14/reuse/%s->%s" % (SHORT[a], SHORT[b])

        def run(a=a, b=b):
            return build.perm(v, a).convert(b, ca), build.perm(v, a).convert(b, cb), build.perm(v, a).convert(b, ca)

        for leaf in job.explore(run, dom):
            if leaf.kind != "returned":
                job.prove(tag + "/no_raise", dom + leaf.pc, z3.BoolVal(True), R, inputs)
                continue
            first, second, again = leaf.value
            cs = dom + leaf.conds()
            job.prove(tag + "/like_named_component_gets_its_own_factor", cs, lift(second.value) != v.t * factor(a, Mb) / factor(b, Mb), R, inputs,
                      fallback=[{"v": 1.0, "M": 18.02, "k": 2.0}])
            pass
        # ... and a conversion that needs a component is still rejected without one afterwards
        def run_reject(a=a, b=b):
            build.perm(v, a).convert(b, ca)
            return build.perm(v, a).convert(b, None)

        for leaf in job.explore(run_reject, dom):
            if leaf.kind == "raised" and isinstance(leaf.value, (ValueError, KeyError)):
                job.record(tag + "/still_rejected_without_a_component", "discharged", "raises %s" % type(leaf.value).__name__)
            else:
                job.prove(tag + "/still_rejected_without_a_component", dom + leaf.pc, z3.BoolVal(True), "vf.props.C14:concrete_reject_after", inputs)
        for leaf in job.explore(run, dom):
            if leaf.kind != "returned":
                continue
            first, second, again = leaf.value
            cs = dom + leaf.conds()
            job.prove(tag + "/first_component_again", cs, z3.Or(lift(first.value) != v.t * factor(a, Ma) / factor(b, Ma), lift(again.value) != lift(first.value)), R, inputs,
                      fallback=[{"v": 1.0, "M": 18.02, "k": 2.0}])


def concrete_chain(inp):
    """a chain of conversions in which each step is handed its own component: every step is the conversion of the value it receives for
    the component *it* is given, whatever an earlier step of the chain was given"""
    v, Ma, Mb = inp.get("v"), inp.get("M"), inp.get("Mb")
    if v is None or not v >= 0:
        v = 1.0
    if Ma is None or not Ma > 0:
        Ma = 18.02
    if Mb is None or not Mb > 0 or close(Mb, Ma, 1e-6, 0):
        Mb = 2.5567 * Ma
    bad = []
    ca, cb = _fcomp(Ma, "first"), _fcomp(Mb, "second")
    for a, m, b in itertools.product(UNITS, UNITS, UNITS):
        got = Permeance(v, a).convert(m, ca).convert(b, cb)
        want = v * _ffactor(a, Ma) / _ffactor(m, Ma) * _ffactor(m, Mb) / _ffactor(b, Mb)
        if not close(got.value, want, 1e-9, 0) or got.units != b:
            bad.append("%s->%s (component of molar mass %r) ->%s (component of molar mass %r) of %r gives %r %s, expected %r"
                       % (SHORT[a], SHORT[m], Ma, SHORT[b], Mb, v, got.value, got.units, want))
        if m != b and Units.kg_m2_h_kPa in (m, b):
            try:
                r = Permeance(v, a).convert(m, ca).convert(b)
                bad.append("%s->%s with a component, then ->%s without one returned %r" % (SHORT[a], SHORT[m], SHORT[b], r.value))
            except (ValueError, KeyError):
                pass
        else:
            got = Permeance(v, a).convert(m, ca).convert(b)
            want = v * _ffactor(a, Ma) / _ffactor(m, Ma) * _ffactor(m, 1.0) / _ffactor(b, 1.0)
            if not close(got.value, want, 1e-9, 0):
                bad.append("%s->%s with a component, then ->%s without one gives %r, expected %r" % (SHORT[a], SHORT[m], SHORT[b], got.value, want))
    return {"ok": not bad, "detail": "; ".join(bad[:3]), "inputs": {"v": v, "M": Ma, "Mb": Mb}}


def chains(job):
    """each step of a chain of conversions uses the component handed to that step (27 unit triples, two components, second step also
    without a component)"""
    job.bound(unit_triples=27, components_per_chain=2)
    job.assume("value v >= 0, molar masses M, Mb > 0")
    v = real("v")
    ca, cb = build.sym_component("1"), build.sym_component("2")
    Ma, Mb = ca.molecular_weight, cb.molecular_weight
    dom = [v.t >= 0, Ma.t > 0, Mb.t > 0]
    inputs = {"v": v.t, "M": Ma.t, "Mb": Mb.t}
    RC = "vf.props.C14:concrete_chain"
    fb = [{"v": 1.0, "M": 18.02, "Mb": 46.07}]
    for a, m, b in itertools.product(UNITS, UNITS, UNITS):
        tag = "C14/chain/%s->%s->%s" % (SHORT[a], SHORT[m], SHORT[b])
        n = 0
        for leaf in job.explore(lambda: build.perm(v, a).convert(m, ca).convert(b, cb), dom):
            if leaf.kind != "returned":
                job.prove(tag + "/no_raise", dom + leaf.pc, z3.BoolVal(True), RC, inputs, fallback=fb)
                continue
            n += 1
            want = v.t * factor(a, Ma) / factor(m, Ma) * factor(m, Mb) / factor(b, Mb)
            job.prove(tag + "/each_step_its_own_component", dom + leaf.conds(), lift(leaf.value.value) != want, RC, inputs, fallback=fb)
        if n == 0:
            job.vacuity["failed"].append(tag + ": no returning path")
        needs = m != b and Units.kg_m2_h_kPa in (m, b)
        for leaf in job.explore(lambda: build.perm(v, a).convert(m, ca).convert(b, None), dom):
            if needs:
                if leaf.kind == "raised" and isinstance(leaf.value, (ValueError, KeyError)):
                    job.record(tag + "/second_step_without_component_rejected", "discharged", "raises %s" % type(leaf.value).__name__)
                else:
                    job.prove(tag + "/second_step_without_component_rejected", dom + leaf.pc, z3.BoolVal(True), RC, inputs, fallback=fb)
            elif leaf.kind != "returned":
                job.prove(tag + "/second_step_without_component/no_raise", dom + leaf.pc, z3.BoolVal(True), RC, inputs, fallback=fb)
            else:
                want = v.t * factor(a, Ma) / factor(m, Ma) * factor(m, build.S(1)) / factor(b, build.S(1))
                job.prove(tag + "/second_step_without_component", dom + leaf.conds(), lift(leaf.value.value) != want, RC, inputs, fallback=fb)


def concrete_reject_after(inp):
    """a conversion from / to kg/(m2 h kPa) without a component is rejected also when earlier conversions in the same interpreter had one"""
    v = inp.get("v")
    if v is None or not v >= 0:
        v = 1.0
    bad = []
    c = _fcomp(18.02)
    for a, b in ((Units.kg_m2_h_kPa, Units.SI), (Units.SI, Units.kg_m2_h_kPa), (Units.GPU, Units.kg_m2_h_kPa), (Units.kg_m2_h_kPa, Units.GPU)):
        Permeance(v, Units.kg_m2_h_kPa).convert(Units.SI, c)
        Permeance(v, Units.GPU).convert(Units.kg_m2_h_kPa, c)
        try:
            r = Permeance(v, a).convert(b)
            bad.append("%s->%s without a component, after conversions that had one, returned %r" % (SHORT[a], SHORT[b], r.value))
        except (ValueError, KeyError):
            pass
    return {"ok": not bad, "detail": "; ".join(bad[:3]), "inputs": inp}


def rejections(job):
    job.bound(unknown_units=["bar", ""])
    v = real("v")
    c = build.sym_component("1")
    M = c.molecular_weight
    dom = [v.t >= 0, M.t > 0]
    inputs = {"v": v.t, "M": M.t}
    cases = []
    for a, b in itertools.product(UNITS, UNITS):
        if a != b and Units.kg_m2_h_kPa in (a, b):
            cases.append(("no_component/%s->%s" % (SHORT[a], SHORT[b]), a, b, None))
    for a in UNITS:
        for unk in ("bar", ""):
            cases.append(("unknown/%s->%r" % (SHORT[a], unk), a, unk, c))
            cases.append(("unknown/%r->%s" % (unk, SHORT[a]), unk, a, c))
            cases.append(("unknown_no_component/%r->%s" % (unk, SHORT[a]), unk, a, None))
    for name, a, b, comp in cases:
        n = 0
        for leaf in job.explore(lambda: build.perm(v, a).convert(b, comp), dom):
            n += 1
            if leaf.kind == "raised" and isinstance(leaf.value, (ValueError, KeyError)):
                job.record("C14/reject/" + name, "discharged", "raises %s" % type(leaf.value).__name__)
            else:
                job.prove("C14/reject/" + name, dom + leaf.pc, z3.BoolVal(True), R, inputs)
        if n == 0:
            job.vacuity["failed"].append(name)
    # twin: a valid specification has a returning path
    ok = [l for l in job.explore(lambda: build.perm(v, Units.GPU).convert(Units.SI, None), dom) if l.kind == "returned"]
    job.vacuity["checked"] += 1
    if not ok:
        job.vacuity["failed"].append("GPU->SI without component should return")
    else:
        job.prove("C14/no_component/GPU->SI", dom + ok[0].conds(), lift(ok[0].value.value) != v.t * rv(3.35e-10), R, inputs)

    # value clamp: Permeance(v).value >= 0 for every real v (the attrs converter runs and forks)
    w = real("v")
    kinds = set()
    for leaf in job.explore(lambda: Permeance(value=w), []):
        if leaf.kind != "returned":
            job.prove("C14/clamp/no_raise", leaf.pc, z3.BoolVal(True), R, {"v": w.t})
            continue
        job.prove("C14/clamp/non_negative", leaf.conds(), lift(leaf.value.value) < 0, R, {"v": w.t})
        job.prove("C14/clamp/keeps_non_negative_values", leaf.conds() + [w.t >= 0], lift(leaf.value.value) != w.t, R, {"v": w.t})
        kinds.add(len(leaf.trace))
    a, b = real("a"), real("b")
    for leaf in job.explore(lambda: build.perm(a) + build.perm(b), [a.t >= 0, b.t >= 0]):
        if leaf.kind == "returned":
            job.prove("C14/add/non_negative", leaf.conds() + [a.t >= 0, b.t >= 0], lift(leaf.value.value) != a.t + b.t, R, {})


XHAIR = '''
from pyvaporation.permeance.permeance import Permeance, Units
from pyvaporation.components import Components


def clamp_never_negative(v: float) -> float:
    """
    post: _ >= 0
    """
    return Permeance(value=v).value


def unknown_source_unit_raises(v: float) -> float:
    """
    pre: v >= 0
    raises: KeyError, ValueError
    post: False
    """
    return Permeance(value=v, units="bar").convert(Units.SI, Components.H2O).value


def unknown_target_unit_raises(v: float) -> float:
    """
    pre: v >= 0
    raises: KeyError, ValueError
    post: False
    """
    return Permeance(value=v, units=Units.GPU).convert("bar", Components.H2O).value


def missing_component_to_kg_raises(v: float) -> float:
    """
    pre: v >= 0
    raises: KeyError, ValueError
    post: False
    """
    return Permeance(value=v, units=Units.SI).convert(Units.kg_m2_h_kPa).value


def missing_component_from_kg_raises(v: float) -> float:
    """
    pre: v >= 0
    raises: KeyError, ValueError
    post: False
    """
    return Permeance(value=v, units=Units.kg_m2_h_kPa).convert(Units.GPU).value


def same_units_is_identity(v: float) -> float:
    """
    pre: v >= 0
    post: _ == v
    """
    return Permeance(value=v, units=Units.GPU).convert(Units.GPU).value
'''


def crosshair(job):
    from .. import xhair
    xhair.run_contracts(job, "C14", XHAIR, timeout=30)


BATTERY_EXTRA = [("vf.props.C14:concrete_reject_after", {"v": 1.0}), ("vf.props.C14:concrete", {"v": 0.0153, "M": 46.07, "k": 3.0}), ("vf.props.C14:concrete", {"v": -1.0})]


def jobs(tier):
    js = [("conversions", "conversions", {}), ("rejections", "rejections", {}), ("reuse", "reuse", {}), ("chains", "chains", {})]
    if tier == "thorough":
        js.append(("crosshair", "crosshair", {}))
    return js

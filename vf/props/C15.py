"""C15 -- mole-/mass-fraction conversion is a consistent bijection (no bound: rational identities)."""
import z3

import pyvaporation as pv
from pyvaporation.mixtures.mixture import Composition

from ..symx import real, SReal, lift, Unsupported
from .. import build, terms
from ..core import close

EXPLANATION = ("Composition.to_molar/to_weight and the Composition constructor are executed on symbolic p, M1, M2; "
               "round trips, fixed points, first+second=1, strict monotonicity and the ratio law are asserted on the "
               "returned terms; the real [0,1] validator forks and every leaf with p outside [0,1] must raise.")
OUTSIDE = "floating-point rounding near the end points (claims are over the reals; nan / inf only as labelled concrete points); no unrolling bound is involved"


def _mix():
    return build.sym_mixture(nrtl=True)


def _float_mix(M1, M2, names="distinct"):
    c1 = build.sym_component("1", sym=False)
    c2 = build.sym_component("2", sym=False)
    if names == "same":  # "for every mixture": nothing makes the names of the two components differ (water / heavy water copied from it)
        c1.name = c2.name = "c"
    c1.molecular_weight = float(M1)
    c2.molecular_weight = float(M2)
    return pv.Mixture(name="m", first_component=c1, second_component=c2, nrtl_params=pv.NRTLParameters(1, 1, 1))


def concrete(inp):
    """evaluates every clause of the property on the real code at one concrete point"""
    p, M1, M2 = inp.get("p"), inp.get("M1"), inp.get("M2")
    q = inp.get("q")
    if p is None or M1 is None or M2 is None or not (M1 > 0 and M2 > 0):
        return {"ok": True, "detail": "inputs outside the domain"}
    mix = _float_mix(M1, M2, inp.get("names", "distinct"))
    bad = []
    if not 0 <= p <= 1:
        for typ in ("weight", "molar"):
            try:
                Composition(p=p, type=typ)
                bad.append("Composition(p=%r, %s) accepted" % (p, typ))
            except ValueError:
                pass
        return {"ok": not bad, "detail": "; ".join(bad)}
    for typ, fwd, back in (("weight", "to_molar", "to_weight"), ("molar", "to_weight", "to_molar")):
        c = Composition(p=p, type=typ)
        f = getattr(c, fwd)(mix)
        b = getattr(f, back)(mix)
        if not close(b.p, p, 1e-9, 1e-12):
            bad.append("%s round trip of %r gives %r" % (typ, p, b.p))
        if not close(f.first + f.second, 1.0):
            bad.append("first+second = %r" % (f.first + f.second))
        if p in (0, 1) and f.p != p:
            bad.append("end point %r moved to %r" % (p, f.p))
        if f.type == typ:
            bad.append("%s did not change the basis tag" % fwd)
        if q is not None and 0 <= q <= 1 and abs(q - p) > 1e-6:
            fq = getattr(Composition(p=q, type=typ), fwd)(mix)
            if (q > p) != (fq.p > f.p):
                bad.append("%s not increasing between %r and %r" % (fwd, p, q))
    # one Composition object converted for two different mixtures (and again for the first): each answer belongs to its own mixture
    mix2 = _float_mix(M2 * 1.7 + 3.0, M1 * 0.6 + 1.0)
    for typ, fwd in (("weight", "to_molar"), ("molar", "to_weight")):
        c = Composition(p=p, type=typ)
        first = getattr(c, fwd)(mix).p
        second = getattr(c, fwd)(mix2).p
        again = getattr(c, fwd)(mix).p
        want2 = getattr(Composition(p=p, type=typ), fwd)(mix2).p
        if not close(second, want2, 1e-12, 1e-15):
            bad.append("%s of the same object for a second mixture gives %r, a fresh object gives %r" % (fwd, second, want2))
        if not close(again, first, 1e-12, 1e-15):
            bad.append("%s repeated for the first mixture gives %r, then %r" % (fwd, first, again))
    if 0 < p < 1:
        x = Composition(p=p, type="weight").to_molar(mix)
        if not close(x.first / x.second, p / (1 - p) * M2 / M1, 1e-9):
            bad.append("ratio law: %r vs %r" % (x.first / x.second, p / (1 - p) * M2 / M1))
    return {"ok": not bad, "detail": "; ".join(bad)}


def identities(job, names="distinct"):
    job.bound(no_unrolling_bound="rational identities in p, q, M1, M2", component_names=names)
    job.assume("0 <= p <= 1 (the constructor's own precondition)", "molar masses M1, M2 > 0")
    p, q = real("p"), real("q")
    mix = _mix()
    if names == "same":
        mix.first_component.name = mix.second_component.name = "c"
    M1, M2 = mix.first_component.molecular_weight, mix.second_component.molecular_weight
    dom = [p.t >= 0, p.t <= 1, q.t >= 0, q.t <= 1, M1.t > 0, M2.t > 0]
    inputs = {"p": p.t, "q": q.t, "M1": M1.t, "M2": M2.t, "names": names}
    R = "vf.props.C15:concrete"

    for typ, fwd, back, oracle in (("weight", "to_molar", "to_weight", build.x_of_w), ("molar", "to_weight", "to_molar", build.w_of_x)):
        def run(typ=typ, fwd=fwd, back=back):
            c = Composition(p=p, type=typ)  # real validator runs (forks; in-domain side only is feasible)
            f = getattr(c, fwd)(mix)
            b = getattr(f, back)(mix)
            same = getattr(c, back)(mix)
            fq = getattr(Composition(p=q, type=typ), fwd)(mix)
            return c, f, b, same, fq

        n_ret = 0
        for leaf in job.explore(run, dom):
            tag = "C15/%s/%s" % (typ, fwd) + ("/like_named_components" if names == "same" else "")
            if leaf.kind != "returned":
                # in-domain input must never be rejected by the conversions' own constructor calls
                job.prove(tag + "/no_raise", dom + leaf.pc, z3.BoolVal(True), R, inputs)
                continue
            n_ret += 1
            c, f, b, same, fq = leaf.value
            cs = dom + leaf.conds()
            job.prove(tag + "/round_trip", cs, lift(b.p) != p.t, R, inputs)
            job.prove(tag + "/sum_is_one", cs, lift(f.first) + lift(f.second) != 1, R, inputs)
            job.prove(tag + "/oracle", cs, lift(f.p) != oracle(p, M1, M2), R, inputs)
            job.prove(tag + "/fixes_0", cs + [p.t == 0], lift(f.p) != 0, R, inputs)
            job.prove(tag + "/fixes_1", cs + [p.t == 1], lift(f.p) != 1, R, inputs)
            job.prove(tag + "/strictly_increasing", cs + [p.t < q.t], lift(f.p) >= lift(fq.p), R, inputs)
            job.prove(tag + "/range", cs, z3.Or(lift(f.p) < 0, lift(f.p) > 1), R, inputs)
            job.record(tag + "/basis_tag", "discharged" if (f.type != typ and b.type == typ and same is c) else "violated",
                       "tags %s -> %s -> %s" % (typ, f.type, b.type), nontrivial=False,
                       replay={"fn": R, "inputs": {"p": 0.5, "M1": 18.0, "M2": 46.0}})
            if typ == "weight":
                job.prove(tag + "/ratio_law", cs + [p.t > 0, p.t < 1],
                          lift(f.first) / lift(f.second) != p.t / (1 - p.t) * M2.t / M1.t, R, inputs)
            else:
                job.prove(tag + "/ratio_law", cs + [p.t > 0, p.t < 1],
                          p.t / (1 - p.t) != lift(f.first) / lift(f.second) * M2.t / M1.t, R, inputs)
            job.twin_sat(tag + "/twin", cs)
            # translator validation: symbolic result vs the real code on floats
            for k in range(4):
                pv_, m1, m2 = job.rng.random(), job.rng.uniform(10, 200), job.rng.uniform(10, 200)
                if k == 0:
                    pv_, m1, m2 = 0.15, 18.02, 46.07
                want = getattr(Composition(p=pv_, type=typ), fwd)(_float_mix(m1, m2)).p
                if not job.on_path(leaf, {"p": pv_, "M11": m1, "M12": m2, "M1": m1, "M2": m2}):
                    continue
                got = terms.evaluate(lift(f.p), {"p": pv_, "M11": m1, "M12": m2, "M1": m1, "M2": m2})
                job.validated("%s(%r)" % (fwd, pv_), close(want, got), "%r vs %r" % (want, got))
        if n_ret == 0:
            job.vacuity["failed"].append("no returning path for %s" % fwd)


def reuse(job):
    """conversions are functions of (p, mixture): one Composition object converted for two mixtures, then for the first again"""
    job.bound(conversions_per_object=3)
    job.assume("0 <= p <= 1, four molar masses > 0")
    p = real("p")
    mixa = build.sym_mixture(nrtl=True)
    mixb = build.sym_mixture(build.sym_component("3"), build.sym_component("4"), nrtl=True, name="symmix2")
    Ma = (mixa.first_component.molecular_weight, mixa.second_component.molecular_weight)
    Mb = (mixb.first_component.molecular_weight, mixb.second_component.molecular_weight)
    dom = [p.t >= 0, p.t <= 1] + [m.t > 0 for m in Ma + Mb]
    inputs = {"p": p.t, "M1": Ma[0].t, "M2": Ma[1].t}
    R = "vf.props.C15:concrete"
    for typ, fwd, oracle in (("weight", "to_molar", build.x_of_w), ("molar", "to_weight", build.w_of_x)):
        def run(typ=typ, fwd=fwd):
            c = Composition(p=p, type=typ)
            return getattr(c, fwd)(mixa), getattr(c, fwd)(mixb), getattr(c, fwd)(mixa), c

        n = 0
        for leaf in job.explore(run, dom):
            tag = "C15/reuse/%s" % fwd
            if leaf.kind != "returned":
                job.prove(tag + "/no_raise", dom + leaf.pc, z3.BoolVal(True), R, inputs)
                continue
            n += 1
            a, b, a2, c = leaf.value
            cs = dom + leaf.conds()
            job.prove(tag + "/second_mixture_gets_its_own_answer", cs, lift(b.p) != oracle(p, *Mb), R, inputs, fallback=[{"p": 0.3, "M1": 18.0, "M2": 46.0}])
            job.prove(tag + "/first_mixture_again", cs, z3.Or(lift(a.p) != oracle(p, *Ma), lift(a2.p) != oracle(p, *Ma)), R, inputs, fallback=[{"p": 0.3, "M1": 18.0, "M2": 46.0}])
            job.prove(tag + "/object_unchanged", cs, lift(c.p) != p.t, R, inputs)
        if n == 0:
            job.vacuity["failed"].append("no returning path for reuse/%s" % fwd)


def rejection(job):
    """constructor with p outside [0,1]: every leaf raises ValueError; twin: inside, a leaf returns"""
    job.bound(constructor="single call")
    p = real("p")
    inputs = {"p": p.t}
    for typ in ("weight", "molar"):
        for side, dom in (("below", [p.t < 0]), ("above", [p.t > 1])):
            n = 0
            for leaf in job.explore(lambda: Composition(p=p, type=typ), dom):
                n += 1
                ok = leaf.kind == "raised" and isinstance(leaf.value, ValueError)
                if ok:
                    job.record("C15/reject/%s/%s" % (typ, side), "discharged", "leaf raises ValueError")
                else:
                    job.prove("C15/reject/%s/%s" % (typ, side), dom + leaf.pc, z3.BoolVal(True),
                              "vf.props.C15:concrete_reject", inputs)
            if n == 0:
                job.vacuity["failed"].append("no path for %s/%s" % (typ, side))
        # rejection does not depend on what was converted before in the same interpreter (1 and 2 earlier conversions)
        import attr
        fmix = _float_mix(18.02, 46.07)
        for k in (1, 2):
            for side, dom in (("below", [p.t < 0]), ("above", [p.t > 1])):
                def after(k=k):
                    attr.validators.set_disabled(False)
                    for i in range(k):
                        c = Composition(p=0.3, type="weight" if i % 2 == 0 else "molar")
                        (c.to_molar if i % 2 == 0 else c.to_weight)(fmix)
                    return Composition(p=p, type=typ)

                for leaf in job.explore(after, dom):
                    ok = leaf.kind == "raised" and isinstance(leaf.value, ValueError)
                    if ok:
                        job.record("C15/reject/%s/%s/after_%d_conversions" % (typ, side, k), "discharged", "leaf raises ValueError")
                    else:
                        job.prove("C15/reject/%s/%s/after_%d_conversions" % (typ, side, k), dom + leaf.pc, z3.BoolVal(True), "vf.props.C15:concrete_reject", inputs)
        attr.validators.set_disabled(False)
        job.refute_concretely("C15/reject/%s/non_finite" % typ, "vf.props.C15:concrete_nonfinite", {"type": typ})
        ret = [l for l in job.explore(lambda: Composition(p=p, type=typ), [p.t >= 0, p.t <= 1]) if l.kind == "returned"]
        job.vacuity["checked"] += 1
        if not ret:
            job.vacuity["failed"].append("valid composition rejected (%s)" % typ)


def concrete_nonfinite(inp):
    """nan / inf are not in [0, 1]: labelled concrete points (non-finite floats have no counterpart in real arithmetic)"""
    bad = []
    for v in (float("nan"), float("inf"), float("-inf")):
        for typ in ("weight", "molar"):
            try:
                Composition(p=v, type=typ)
                bad.append("Composition(p=%r, %s) was accepted" % (v, typ))
            except ValueError:
                pass
    return {"ok": not bad, "detail": "; ".join(bad), "inputs": inp}


def concrete_reject(inp):
    p = inp.get("p")
    if p is None or 0 <= p <= 1:
        return {"ok": True, "detail": "in range"}
    import attr
    attr.validators.set_disabled(False)
    mix = _float_mix(18.02, 46.07)
    # on its own, and after one, two and three conversions made earlier in the same interpreter
    for k in range(4):
        for typ in ("weight", "molar"):
            try:
                Composition(p=p, type=typ)
            except ValueError:
                continue
            attr.validators.set_disabled(False)
            return {"ok": False, "detail": "Composition(p=%r, %s) was accepted after %d earlier conversion(s)" % (p, typ, k), "inputs": {"p": p}}
        c = Composition(p=0.3, type="weight" if k % 2 == 0 else "molar")
        (c.to_molar if k % 2 == 0 else c.to_weight)(mix)
    attr.validators.set_disabled(False)
    return {"ok": True, "detail": "raised"}


XHAIR = '''
from pyvaporation.mixtures.mixture import Composition


def below_zero_rejected(p: float) -> float:
    """
    pre: p < 0
    raises: ValueError
    post: False
    """
    return Composition(p=p, type="weight").p


def above_one_rejected(p: float) -> float:
    """
    pre: p > 1
    raises: ValueError
    post: False
    """
    return Composition(p=p, type="molar").p


def in_range_accepted(p: float) -> float:
    """
    pre: 0 <= p <= 1
    post: _ == p
    """
    return Composition(p=p, type="weight").p


def second_is_complement(p: float) -> float:
    """
    pre: 0 <= p <= 1
    post: 0 <= _ <= 1
    """
    return Composition(p=p, type="weight").second
'''


def crosshair(job):
    from .. import xhair
    xhair.run_contracts(job, "C15", XHAIR, timeout=30)


BATTERY_EXTRA = [("vf.props.C15:concrete_reject", {"p": -0.25}), ("vf.props.C15:concrete_reject", {"p": 1.5}), ("vf.props.C15:concrete", {"p": 0.0, "M1": 18.02, "M2": 46.07}),
                 ("vf.props.C15:concrete", {"p": 1.0, "M1": 60.1, "M2": 18.02, "q": 0.4})]


def jobs(tier):
    js = [("identities", "identities", {}), ("identities_like_named", "identities", {"names": "same"}), ("rejection", "rejection", {}), ("reuse", "reuse", {})]
    if tier == "thorough":
        js.append(("crosshair", "crosshair", {}))
    return js

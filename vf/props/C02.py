"""C02 -- returned fluxes obey the solution-diffusion law at a self-consistent permeate."""
import z3

import pyvaporation as pv
from pyvaporation.mixtures import mixture as mixmod

from ..symx import real, lift, SReal
from .. import build, flux
from ..core import Patches, close

EXPLANATION = ("Pervaporation.calculate_partial_fluxes (with the real get_partial_fluxes_from_permeate_composition, "
               "get_partial_pressures, to_molar and the fixed-point loop) is executed with symbolic feed state, permeances, "
               "permeate condition and precision; activity coefficients and saturation pressures are purified UFs.  On every leaf that "
               "leaves the loop after n <= K iterations the result must equal permeance x (feed - permeate partial pressure) at an "
               "oracle iterate y_j whose step |y_j - y_(j-1)| < precision follows from the path condition; vacuum / p=0 / fixed-pressure "
               "identities and the permeance scaling law are asserted on the same leaves.")
OUTSIDE = ("exits after more than K loop iterations (cut leaves are counted); the contraction factor of the map itself; "
           "floating-point rounding")
R_ = "vf.props.C02:concrete"
K_TIER = {"quick": 2, "thorough": 4}


def concrete(inp):
    if not flux.admissible(inp):
        return {"ok": True, "detail": "outside domain"}
    bad = []
    for name in ([inp["mixture"]] if inp.get("mixture") else ["H2O_EtOH"]):
        i = dict(inp, mixture=name)
        ref = flux.reference(i)
        if ref is None:
            continue
        (r1, r2), y, n, (a, b) = ref
        try:
            j1, j2 = (float(v) for v in flux.real_call(i))
        except ValueError as e:
            continue
        if not (close(j1, r1, 1e-8, 1e-14) and close(j2, r2, 1e-8, 1e-14)):
            bad.append("%s %s: solver returns (%r, %r), permeance x driving force at its own permeate (y=%r after %d iterations) is (%r, %r)"
                       % (name, i.get("model", "NRTL"), j1, j2, y, n, r1, r2))
        if i.get("Tp") is None and (i.get("Pp") is None or i.get("Pp") == 0):
            if not (close(j1, i["P1"] * a, 1e-9) and close(j2, i["P2"] * b, 1e-9)):
                bad.append("vacuum: fluxes (%r, %r) != permeance x feed pressure (%r, %r)" % (j1, j2, i["P1"] * a, i["P2"] * b))
        if i.get("Pp") is not None:
            lhs, rhs = j1 / i["P1"] + j2 / i["P2"], a + b - i["Pp"]
            if not close(lhs, rhs, 1e-8, 1e-10):
                bad.append("fixed pressure identity: J1/P1+J2/P2=%r but p_feed-p=%r" % (lhs, rhs))
        k = i.get("k")
        if k and k > 0:
            i2 = dict(i, P1=i["P1"] * k, P2=i["P2"] * k)
            s1, s2 = (float(v) for v in flux.real_call(i2))
            if not (close(s1, k * j1, 1e-6) and close(s2, k * j2, 1e-6)):
                bad.append("scaling permeances by %r scales fluxes by (%r, %r)" % (k, s1 / j1, s2 / j2))
    return {"ok": not bad, "detail": "; ".join(bad[:3]), "inputs": dict(inp)}


def observed_run(inp):
    """real flux calculation with a harness-side recorder of the permeate compositions it evaluates"""
    from pyvaporation.pervaporation.pervaporation import Pervaporation
    orig = Pervaporation.get_partial_fluxes_from_permeate_composition
    ys = []

    def rec(self, *a, **k):
        pc = k.get("permeate_composition", a[2] if len(a) > 2 else None)
        ys.append(float(pc.first))
        if len(ys) > 5000:
            raise RuntimeError("no convergence")
        return orig(self, *a, **k)

    Pervaporation.get_partial_fluxes_from_permeate_composition = rec
    try:
        j = flux.real_call(inp)
    finally:
        Pervaporation.get_partial_fluxes_from_permeate_composition = orig
    return (float(j[0]), float(j[1])), ys


def concrete_consistent(inp):
    """the permeate composition the returned fluxes were evaluated at agrees with the composition of the returned
    fluxes (or with the previous iterate) within the requested precision wherever the map contracts"""
    cands = [inp] if flux.admissible(inp) else []
    mode = inp.get("mode")
    for name in ("H2O_EtOH", "H2O_iPOH", "MeOH_MTBE"):
        for T, x in ((333.15, 0.9), (313.15, 0.5), (353.15, 0.2)):
            base = {"mixture": name, "model": inp.get("model", "NRTL"), "T": T, "x": x, "P1": 0.05, "P2": 0.02, "mode": mode}
            for prec in (1e-3, 1e-5):
                if mode == "ppres":
                    from pyvaporation.mixtures import Mixtures
                    a, b = mixmod.get_partial_pressures(T, getattr(Mixtures, name), mixmod.Composition(x, "weight"), base["model"])
                    for f in (0.5, 0.8, 0.9, 0.95):
                        cands.append(dict(base, prec=prec, Pp=min(100.0, f * float(a + b))))
                elif mode == "ptemp":
                    for dT in (40.0, 15.0, 5.0, 2.0):
                        cands.append(dict(base, prec=prec, Tp=T - dT))
    for i in cands:
        try:
            (j1, j2), ys = observed_run(i)
        except Exception:
            continue
        if len(ys) < 2 or j1 + j2 == 0:
            continue
        y_used, y_prev, y_out = ys[-1], ys[-2], j1 / (j1 + j2)
        if not (0 <= y_out <= 1):
            continue
        contraction = abs(y_out - y_used) <= abs(y_used - y_prev) or abs(y_used - y_prev) == 0
        if contraction and abs(y_used - y_prev) >= i["prec"] and abs(y_out - y_used) >= i["prec"]:
            return {"ok": False, "inputs": i, "detail": "%s: fluxes evaluated at permeate y=%r; previous iterate %r, composition of the "
                    "returned fluxes %r: both differ by more than precision %r" % (i.get("mixture", "H2O_EtOH"), y_used, y_prev, y_out, i["prec"])}
    return {"ok": True, "detail": "self-consistent within precision at %d candidate states" % len(cands)}


def solver(job, mode, model, K):
    job.bound(flux_iterations_K=K)
    job.stub("GAMMA_i^model(T, x_molar) > 0 for calculate_activity_coefficients", "PSAT_i(T) > 0 for Component.get_vapor_pressure")
    job.assume("Composition [0,1] validator as assumption (raising is not the subject here)", "273 < T < 400, 0 < x < 1, P1, P2 > 0, "
               "0 < precision <= 1, 120 <= Tp <= T, 0 <= Pp <= 100, molar masses > 0", "division denominators on the path non-zero")
    fs = flux.FluxSetup(mode, model)
    dom = fs.domain()
    inputs = fs.inputs()
    fb = flux.fallback_for(mode)
    tag = "C02/%s/%s" % (mode, model)
    with Patches() as pt:
        build.stub_thermo(pt, fs.mix)
        build.assume_validator(pt)
        cnt = flux.LoopCounter(pt, K)

        def run():
            cnt.reset()
            return fs.pz.calculate_partial_fluxes(fs.T, build.comp(fs.x, "weight"), fs.prec, fs.Tp, fs.Pp,
                                                  build.perm(fs.P1), build.perm(fs.P2), model)

        seen_n = set()
        for leaf in job.explore(run, dom):
            if leaf.kind == "cut":
                continue
            if leaf.kind != "returned":
                job.prove(tag + "/no_raise", dom + leaf.pc, z3.BoolVal(True), R_, inputs, fallback=fb)
                continue
            n = cnt.n - 1  # loop iterations on this path (one more evaluation after the loop)
            seen_n.add(n)
            out = leaf.value
            cs = dom + leaf.conds()
            a, b = fs.feed_pp()
            ok_variant = None
            for variant in (("mass", "mole") if mode == "ppres" else ("mass",)):
                ys = fs.iterates(n, variant)
                # which iterate are the returned fluxes evaluated at?
                for j in range(n, max(n - 2, -1), -1):
                    ref = fs.F(ys[j], variant)
                    st = job.prove("%s/n%d/law_at_y%d/%s" % (tag, n, j, variant), cs,
                                   z3.Or(lift(out[0]) != ref[0], lift(out[1]) != ref[1]), None, inputs)
                    if st == "discharged":
                        ok_variant = (variant, j, ys)
                        break
                    job.results.pop()  # a failed attempt at another iterate/variant is not an obligation
                if ok_variant:
                    break
            if ok_variant is None:
                ys = fs.iterates(n)
                ref = fs.F(ys[n])
                job.prove("%s/n%d/law" % (tag, n), cs, z3.Or(lift(out[0]) != ref[0], lift(out[1]) != ref[1]), R_, inputs, fallback=fb)
            else:
                variant, j, ys = ok_variant
                if j >= 1:
                    d = ys[j] - ys[j - 1]
                    nxt = ref[0] / (ref[0] + ref[1]) - ys[j]
                    job.prove("%s/n%d/self_consistent" % (tag, n), cs,
                              z3.And(z3.If(d >= 0, d, -d) >= fs.prec.t, z3.If(nxt >= 0, nxt, -nxt) >= fs.prec.t),
                              "vf.props.C02:concrete_consistent", inputs)
                else:
                    job.prove("%s/n%d/self_consistent" % (tag, n), cs, z3.BoolVal(mode != "vac"), R_, inputs, fallback=fb)
            if mode == "vac":
                job.prove("%s/n%d/vacuum_exact" % (tag, n), cs, z3.Or(lift(out[0]) != fs.P1.t * a, lift(out[1]) != fs.P2.t * b), R_, inputs, fallback=fb)
            if mode == "ppres":
                job.prove("%s/n%d/pressure_identity" % (tag, n), cs,
                          lift(out[0]) / fs.P1.t + lift(out[1]) / fs.P2.t != a + b - fs.Pp.t, R_, inputs, fallback=fb)
                job.prove("%s/n%d/zero_pressure_exact" % (tag, n), cs + [fs.Pp.t == 0],
                          z3.Or(lift(out[0]) != fs.P1.t * a, lift(out[1]) != fs.P2.t * b), R_, dict(inputs, Pp=0.0), fallback=[dict(f, Pp=0.0) for f in fb])
            job.twin_sat("%s/n%d/twin" % (tag, n), cs)
        if not seen_n:
            job.vacuity["failed"].append(tag + ": no returning leaf")
        job.bound(**{"iterations_reached_%s_%s" % (mode, model): sorted(seen_n)})

    # translator validation: the executed result term, evaluated with the real thermodynamics, vs the real call
    for f in fb:
        i = dict(f, mode=mode, model=model)
        ref = flux.reference(i)
        if ref is not None:
            j = flux.real_call(i)
            job.validated(tag, close(float(j[0]), ref[0][0], 1e-8) and close(float(j[1]), ref[0][1], 1e-8), "%r vs %r" % (j, ref[0]))


def scaling(job, mode, model, K):
    """multiplying both permeances by k multiplies both fluxes by k (same permeate composition)"""
    job.bound(flux_iterations_K_scaling=K)
    fs = flux.FluxSetup(mode, model)
    k = real("k")
    dom = fs.domain() + [k.t > 0]
    inputs = fs.inputs(k=k.t)
    fb = [dict(f, k=3.0) for f in flux.fallback_for(mode)]
    tag = "C02/scaling/%s/%s" % (mode, model)
    with Patches() as pt:
        build.stub_thermo(pt, fs.mix)
        build.assume_validator(pt)
        cnt = flux.LoopCounter(pt, K)
        it = flux.IterateNames(pt)

        def run():
            cnt.reset()
            it.reset()
            r1 = fs.pz.calculate_partial_fluxes(fs.T, build.comp(fs.x, "weight"), fs.prec, fs.Tp, fs.Pp,
                                                build.perm(fs.P1), build.perm(fs.P2), model)
            n1, y1 = cnt.n, list(it.names)
            cnt.reset()
            it.reset()
            r2 = fs.pz.calculate_partial_fluxes(fs.T, build.comp(fs.x, "weight"), fs.prec, fs.Tp, fs.Pp,
                                                build.perm(k * fs.P1), build.perm(k * fs.P2), model)
            return r1, r2, n1, cnt.n, y1, list(it.names)

        got = 0
        for leaf in job.explore(run, dom):
            if leaf.kind != "returned":
                continue
            r1, r2, n1, n2, ya, yb = leaf.value
            cs = dom + leaf.conds()
            got += 1
            cgn = ["GAMMA1_%s" % model, "GAMMA2_%s" % model]
            # chain: the (named) permeate iterates of the scaled run equal those of the original run, one by one
            lemmas = []
            for j in range(min(len(ya), len(yb))):
                st = job.prove("%s/n%d_n%d/iterate%d_unchanged" % (tag, n1 - 1, n2 - 1, j), cs + lemmas, lift(yb[j]) != lift(ya[j]), R_, inputs,
                               fallback=fb, timeout=20, congruence=cgn, near=1)
                if st == "discharged":
                    lemmas.append(lift(yb[j]) == lift(ya[j]))
            if n1 != n2:
                # the scaled run left the loop at another iteration: must be infeasible
                job.prove("%s/n%d_vs_n%d/same_exit" % (tag, n1 - 1, n2 - 1), cs + lemmas, z3.BoolVal(True), R_, inputs, fallback=fb, timeout=20)
                continue
            job.prove("%s/n%d/fluxes_scale" % (tag, n1 - 1), cs + lemmas,
                      z3.Or(lift(r2[0]) != k.t * lift(r1[0]), lift(r2[1]) != k.t * lift(r1[1])), R_, inputs, fallback=fb, timeout=30,
                      congruence=cgn, near=1)
        if not got:
            job.unreached(tag)


def jobs(tier):
    K = K_TIER[tier]
    js = []
    for mode in flux.MODES:
        for model in ("NRTL", "UNIQUAC"):
            js.append(("solver_%s_%s" % (mode, model), "solver", {"mode": mode, "model": model, "K": K}))
        js.append(("scaling_%s" % mode, "scaling", {"mode": mode, "model": "NRTL", "K": 1 if tier == "quick" else 2}))
    return js

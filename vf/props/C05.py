"""C05 -- non-ideal models follow the fitted permeance functions they return."""
import z3

import pyvaporation as pv
from pyvaporation.optimizer.optimizer import Measurements
from pyvaporation.pervaporation.pervaporation import Pervaporation
from pyvaporation import utils as pvutils

from ..symx import lift, SReal, real, rv, EXP, Pure
from .. import build, proc, realrun, terms
from ..core import Patches, close

EXPLANATION = ("non_ideal_isothermal_process, non_ideal_non_isothermal_process and non_ideal_diffusion_curve are executed with the public "
               "best-fit search replaced by a recording stub that returns a PervaporationFunction with symbolic alpha, a[], b[] (numpy object "
               "arrays, so aliasing of coefficient arrays is the real one) and the membrane's activation energy as EA_i.  Checked: the search "
               "is called once per component on exactly that component's measurements of the supplied curve set; the returned fits are those "
               "results, or for a single curve the Arrhenius re-scaled function; permeances[k] = fit(x_k or x_(k-1), T_k) x c_i with c_i fixed "
               "by step 0 (supplied initial permeances, else 1).")
OUTSIDE = "the optimiser itself (C16); step counts above the bound; curve sets with more than 2 curves x 2 points; float rounding"
R_ = "vf.props.C05:concrete"
RG = pvutils.R


def fit_value(coef, x, T):
    """alpha * exp(sum a_i x^(i+1) - sum b_i x^i / T) on z3 terms"""
    x, T = lift(x), lift(T)
    s = z3.RealVal(0)
    for i, a in enumerate(coef["a"]):
        t = lift(a)
        for _ in range(i + 1):
            t = t * x
        s = s + t
    r = z3.RealVal(0)
    for i, b in enumerate(coef["b"]):
        t = lift(b)
        for _ in range(i):
            t = t * x
        r = r + t
    return lift(coef["alpha"]) * EXP(s - r / T)


def concrete(inp):
    """real non-ideal runs (also started exactly at the single curve's temperature)"""
    outs = [_concrete_one(inp)]
    if inp.get("n_curves") == 1:
        outs.append(_concrete_one(dict(inp, T0=313.15, A=0.4)))
    for o in outs:
        if not o["ok"]:
            return o
    return outs[0]


def _concrete_one(inp):
    """real non-ideal run: permeances follow the returned fits with a constant factor fixed by step 0"""
    kind = inp.get("kind", "non_ideal_non_isothermal_process")
    i = {"A": 0.05, "T0": 330.0, "m0": 3.0, "x0": 0.35, "dt": 0.2, "N": 4, "prec": 5e-5}
    i.update({k: v for k, v in inp.items() if v is not None and k in ("A", "T0", "m0", "x0", "dt", "Tp", "Pp", "basis", "n_curves", "initial_permeances", "mixture")})
    if inp.get("program") and "non_isothermal" in str(kind):
        # a gentle programme of the requested type through the initial temperature (the model's own coefficients rarely give admissible runs)
        i.update(realrun.proc_fallback("vac", inp["program"])[0] and {k: v for k, v in realrun.proc_fallback("vac", inp["program"])[0].items() if k.startswith("tc")})
        i["program"] = inp["program"]
        if inp["program"] != "logarithmic":
            i["tc0"] = i["T0"]
        else:
            import math
            i["tc1"] = math.exp(i["T0"] / i["tc0"])
    i["kind"] = kind if kind in proc.KINDS else "non_ideal_non_isothermal_process"
    if not realrun.admissible_process(i):
        i.update({"A": 0.05, "T0": 330.0, "m0": 3.0, "x0": 0.35, "dt": 0.2})
    bad = []
    if inp.get("p0_units"):
        # supplied initial permeances in SI / GPU: step 0 must reproduce them (converted with each component's own molar mass)
        from pyvaporation.permeance.permeance import Units
        mix = realrun.mixture_of(i)
        kg = (0.05, 0.001)
        P0 = (pv.Permeance(kg[0]).convert(inp["p0_units"], mix.first_component), pv.Permeance(kg[1]).convert(inp["p0_units"], mix.second_component))
        from pyvaporation.pervaporation.pervaporation import Pervaporation as P_
        pz0 = P_(realrun.membrane_for(mix), mix)
        curves = realrun.curve_set(mix, i.get("n_curves", 2))
        kw = dict(conditions=realrun.conditions_of(i, mix), diffusion_curve_set=curves, number_of_steps=2, delta_hours=i["dt"], initial_permeances=P0, n_first=1, n_second=1)
        if len(curves.diffusion_curves) > 1:
            kw.update(m_first=1, m_second=1)
        try:
            m0 = getattr(pz0, i["kind"])(**kw)
            for j in (0, 1):
                if not close(m0.permeances[0][j].value, kg[j], 1e-9):
                    bad.append("initial permeance%d supplied as %r %s (= %r kg/(m2 h kPa)) but step 0 uses %r" % (j + 1, float(P0[j].value), inp["p0_units"], kg[j], float(m0.permeances[0][j].value)))
        except ValueError:
            pass
        if bad:
            return {"ok": False, "detail": "%s: %s" % (i["kind"], "; ".join(bad)), "inputs": i}
    try:
        m, cond, pz = realrun.process(i)
    except ValueError as e:
        return {"ok": True, "detail": "run rejected: %s" % e}
    iso = "non_isothermal" not in i["kind"]
    fits = m.permeance_fits
    w0 = m.feed_compositions[0].p
    c = [m.permeances[0][j].value / fits[j](w0, m.feed_temperature[0]) for j in (0, 1)]
    if not i.get("initial_permeances"):
        for j in (0, 1):
            if not close(c[j], 1.0, 1e-9):
                bad.append("no initial permeances supplied but step 0 permeance%d is %r x the returned fit" % (j + 1, float(c[j])))
    for k in range(1, len(m.time)):
        x = m.feed_compositions[k - 1 if iso else k].p
        for j in (0, 1):
            want = fits[j](x, m.feed_temperature[k]) * c[j]
            if not close(m.permeances[k][j].value, want, 1e-8):
                bad.append("step %d permeance%d %r, returned fit x step-0 factor gives %r" % (k, j + 1, float(m.permeances[k][j].value), float(want)))
    if i.get("n_curves") == 1:
        # single curve: the returned functions carry the membrane's activation energy
        import math
        from pyvaporation.optimizer.optimizer import find_best_fit
        Tc = 313.15
        curves = realrun.curve_set(pz.mixture, 1, i.get("curve_basis", "weight"))
        for j, comp in enumerate((pz.mixture.first_component, pz.mixture.second_component)):
            Ea = pz.membrane.calculate_activation_energy(comp)
            ms = (Measurements.from_diffusion_curves_first if j == 0 else Measurements.from_diffusion_curves_second)(curves)
            search = find_best_fit(ms, n=1, m=0, component_index=j)
            for x in (0.2, 0.6):
                for T in (m.feed_temperature[0], 351.0):
                    want = search(x, Tc) * math.exp(-Ea / RG * (1 / T - 1 / Tc))
                    if not close(fits[j](x, T), want, 1e-8):
                        bad.append("single curve: returned fit%d(%r, %r) = %r, Arrhenius re-scaling of the best-fit search result at the curve temperature gives %r"
                                   % (j + 1, x, float(T), float(fits[j](x, T)), float(want)))
    else:
        # several curves, explicit and pairwise different orders: the returned functions are what the public search gives for exactly those orders
        from pyvaporation.optimizer.optimizer import find_best_fit
        curves = realrun.curve_set(pz.mixture, 2, i.get("curve_basis", "weight"))
        orders = dict(n_first=1, m_first=0, n_second=2, m_second=1)
        try:
            mo = getattr(pz, i["kind"])(conditions=cond, diffusion_curve_set=curves, number_of_steps=2, delta_hours=i["dt"], precision=i.get("prec") or 5e-5, **orders)
        except ValueError:
            mo = None
        if mo is not None:
            for j, (n_, m_) in enumerate(((orders["n_first"], orders["m_first"]), (orders["n_second"], orders["m_second"]))):
                ms = (Measurements.from_diffusion_curves_first if j == 0 else Measurements.from_diffusion_curves_second)(curves)
                search = find_best_fit(ms, n=n_, m=m_, component_index=j)
                for x, T in ((0.2, 318.0), (0.7, 329.0)):
                    if not close(mo.permeance_fits[j](x, T), search(x, T), 1e-7):
                        bad.append("returned fit%d(%r, %r) = %r, but find_best_fit(n=%d, m=%d) on that component's measurements gives %r"
                                   % (j + 1, x, T, float(mo.permeance_fits[j](x, T)), n_, m_, float(search(x, T))))
    return {"ok": not bad, "detail": "%s: %s" % (i["kind"], "; ".join(bad[:3])), "inputs": i}


def _check_fit_calls(job, tag, ps, cs, inputs, n_curves):
    """the search is called once per component with that component's measurements"""
    calls = ps.fit_calls
    ok = len(calls) == 2 and [c["component_index"] for c in calls] == [0, 1]
    job.record(tag + "/search_called_once_per_component", "discharged" if ok else "violated",
               "%d calls, component indexes %r" % (len(calls), [c["component_index"] for c in calls]), nontrivial=False,
               replay={"fn": R_, "inputs": {"kind": ps.kind}})
    if not ok:
        return
    for i, c in enumerate(calls):
        pts = [(cv.feed_compositions[j].p, cv.feed_temperature, cv.permeances[j][i].value) for cv in ps.curves.diffusion_curves for j in range(len(cv.feed_compositions))]
        data = c["data"].data
        if len(data) != len(pts):
            job.record(tag + "/measurements_of_component%d" % (i + 1), "violated", "%d points for %d curve points" % (len(data), len(pts)), replay={"fn": R_, "inputs": {"kind": ps.kind}})
            continue
        neg = []
        for d, (x, t, p) in zip(data, pts):
            neg += [lift(d.x) != lift(x), lift(d.t) != lift(t), lift(d.p) != lift(p)]
        job.prove(tag + "/measurements_of_component%d" % (i + 1), cs, neg, R_, inputs)
        want_n, want_m = ps.requested_orders(i)
        orders_ok = c["n"] == want_n and c["m"] == want_m
        job.record(tag + "/requested_orders_component%d" % (i + 1), "discharged" if orders_ok else "violated", "n=%r m=%r" % (c["n"], c["m"]), nontrivial=False,
                   replay={"fn": R_, "inputs": {"kind": ps.kind}})


def _check_returned_fits(job, tag, ps, cs, inputs, fits, Tfeed, rescaled_expected):
    """returned functions: the search results, or (single curve) their Arrhenius re-scaling"""
    xq, Tq = real("xq"), real("Tq")
    out = []
    for i in (0, 1):
        got = {"alpha": fits[i].alpha, "a": list(fits[i].a), "b": list(fits[i].b)}
        out.append(got)
        orig = ps.fits[i]
        v_got = fit_value(got, xq, Tq)
        if ps.n_curves == 1:
            Tc = ps.curves.diffusion_curves[0].feed_temperature
            EA = lift(ps.membrane.calculate_activation_energy(ps.mix.first_component if i == 0 else ps.mix.second_component))
            at_curve_T = fit_value(orig, xq, Tc)
            want = at_curve_T * EXP(-EA / rv(RG) * (1 / Tq.t - 1 / lift(Tc)))
            unchanged = fit_value(orig, xq, Tq)
            # either the Arrhenius re-scaled function, or (modelling temperature == curve temperature) the search result itself
            lhs = terms.exp_normal(v_got)
            if rescaled_expected:
                # the model evaluates the function at temperatures other than the curve's (self-cooling / programme): it must carry the
                # membrane's activation energy whatever the initial temperature is
                job.prove(tag + "/returned_fit%d_is_arrhenius_rescaled" % (i + 1), cs + [Tq.t > 273, Tq.t < 400, xq.t >= 0, xq.t <= 1],
                          lhs != terms.exp_normal(want), R_, inputs, congruence=["EXP"], timeout=40)
            else:
                job.prove(tag + "/returned_fit%d_is_arrhenius_rescaled_or_search_result" % (i + 1), cs + [Tq.t > 273, Tq.t < 400, xq.t >= 0, xq.t <= 1],
                          z3.And(lhs != terms.exp_normal(want), z3.Or(lhs != terms.exp_normal(unchanged), lift(Tc) != lift(Tfeed))),
                          R_, inputs, congruence=["EXP"], timeout=40)
        else:
            job.prove(tag + "/returned_fit%d_is_search_result" % (i + 1), cs + [Tq.t > 273, Tq.t < 400], v_got != fit_value(orig, xq, Tq), R_, inputs,
                      congruence=["EXP"], timeout=40)
    return out


def processes(job, kind, mode, tier):
    N = 3 if tier == "quick" else 4
    job.bound(process_steps_N=N, curves=[1, 2], points_per_curve=2)
    job.stub("find_best_fit -> recording stub returning symbolic PervaporationFunction (alpha, a[1], b[1 or 2])", "FLUX(...)", "EA_i for calculate_activation_energy",
             "HVAP/CP/COOL")
    job.assume("Permeance clamp and Composition validator as assumptions", "fit values > 0 is NOT assumed", "domain of C01")
    iso = "non_isothermal" not in kind
    from pyvaporation.permeance.permeance import Units
    from .C14 import factor
    configs = []
    for n_curves in (1, 2):
        for init_perm in (False, True, Units.SI, Units.GPU):
            for basis in ("weight", "molar"):
                if tier == "quick" and basis == "molar" and init_perm and n_curves == 2:
                    continue
                if tier == "quick" and init_perm in (Units.SI, Units.GPU) and (basis == "molar" or (n_curves == 1) != (init_perm == Units.SI)):
                    continue  # quick: SI with one curve, GPU with two curves, mass-fraction feed
                configs.append((n_curves, init_perm, basis, None))
    if not iso:
        # the temperature list comes from a programme instead of the heat balance
        configs += [(2, False, "weight", "polynomial")]
        if tier != "quick":
            configs += [(1, True, "weight", "polynomial"), (2, True, "weight", "logarithmic")]
    for n_curves, init_perm, basis, program in configs:
        if True:
            if True:
                p0u = init_perm if init_perm in (Units.SI, Units.GPU) else None
                ps = proc.ProcSetup(kind, mode, basis, program, N, n_curves=n_curves, initial_permeances=bool(init_perm), p0_units=p0u)
                dom = ps.domain()
                inputs = dict(ps.inputs(), kind=kind, p0_units=p0u)
                tag = "C05/%s/%s/c%d/ip%s/%s" % (proc.SHORT[kind], mode, n_curves, {False: "0", True: "1", Units.SI: "SI", Units.GPU: "GPU"}[init_perm], basis) + ("/" + program if program else "")
                with Patches() as pt:
                    ps.install(pt, name_state=True)
                    got = 0
                    for leaf in job.explore(ps.run, dom, timeout_ms=100):
                        if leaf.kind != "returned":
                            continue
                        got += 1
                        m = leaf.value
                        cs = dom + leaf.conds()
                        _check_fit_calls(job, tag, ps, cs, inputs, n_curves)
                        if m.permeance_fits is None or len(ps.fits) != 2:
                            job.record(tag + "/fits_returned", "violated", "permeance_fits missing", replay={"fn": R_, "inputs": {"kind": kind}})
                            continue
                        fits = _check_returned_fits(job, tag, ps, cs, inputs, m.permeance_fits, ps.T0, not iso)
                        w0, T0 = lift(m.feed_compositions[0].p), lift(m.feed_temperature[0])
                        for i in (0, 1):
                            f0 = fit_value(fits[i], w0, T0)
                            P0 = lift(m.permeances[0][i].value)
                            if init_perm:
                                Mi = ps.M1 if i == 0 else ps.M2
                                supplied_kg = lift(ps._P00[i][0]) if p0u is None else lift(ps._P00[i][0]) * factor(p0u, Mi) / factor(Units.kg_m2_h_kPa, Mi)
                                job.prove(tag + "/step0_is_supplied_permeance%d" % (i + 1), cs, P0 != supplied_kg, R_, inputs, congruence=["EXP"])
                            else:
                                job.prove(tag + "/step0_is_fit%d" % (i + 1), cs, P0 != f0, R_, inputs, congruence=["EXP"], near=2)
                            for k in range(1, N):
                                xk = lift(m.feed_compositions[k - 1 if iso else k].p)
                                want = fit_value(fits[i], xk, lift(m.feed_temperature[k])) * (P0 / f0)
                                job.prove(tag + "/follows_fit%d/k%d" % (i + 1, k), cs, lift(m.permeances[k][i].value) != want, R_, inputs,
                                          congruence=["EXP"], near=2, timeout=40)
                    if not got:
                        job.unreached(tag)


def curve(job, mode, tier):
    N = 1 if tier == "quick" else 2
    job.bound(curve_steps=N)
    for n_curves in (1, 2):
        for init_perm in (False, True):
            for basis in ("weight", "molar"):
                ps = proc.ProcSetup("non_ideal_isothermal_process", mode, basis, None, 1, n_curves=n_curves, initial_permeances=init_perm)
                dx = real("dx")
                dom = ps.domain() + [dx.t > 0, dx.t < 1]
                inputs = dict(ps.inputs(), kind="non_ideal_diffusion_curve")
                tag = "C05/curve/%s/c%d/ip%d/%s" % (mode, n_curves, int(init_perm), basis)
                with Patches() as pt:
                    ps.install(pt, name_state=False)

                    def run():
                        ps.fit_calls.clear()
                        ps.calls.clear()
                        ic = build.comp(ps.x0, basis)
                        P0 = tuple(build.perm(v, u) for v, u in ps._P00) if init_perm and hasattr(ps, "_P00") else ps.P0
                        return ps.pz.non_ideal_diffusion_curve(diffusion_curve_set=ps.curves, feed_temperature=ps.T0, initial_feed_composition=ic,
                                                               delta_composition=dx, number_of_steps=N, permeate_temperature=ps.Tp, permeate_pressure=ps.Pp,
                                                               initial_permeances=P0, precision=ps.prec, n_first=1, n_second=2,
                                                               m_first=None if n_curves == 1 else 1, m_second=None if n_curves == 1 else 3)

                    if init_perm:
                        ps._P00 = [(P.value, P.units) for P in ps.P0]
                    got = 0
                    for leaf in job.explore(run, dom, timeout_ms=100):
                        if leaf.kind != "returned":
                            continue
                        got += 1
                        dc = leaf.value
                        cs = dom + leaf.conds()
                        _check_fit_calls(job, tag, ps, cs, inputs, n_curves)
                        if len(ps.fits) != 2:
                            continue
                        # the curve object does not carry the fits: the functions in force are the search results (re-scaled for one curve)
                        w0 = build.w_of_x(ps.x0, ps.M1, ps.M2) if basis == "molar" else ps.x0.t
                        for i in (0, 1):
                            orig = ps.fits[i]
                            if n_curves == 1:
                                Tc = lift(ps.curves.diffusion_curves[0].feed_temperature)
                                EA = lift(ps.membrane.calculate_activation_energy(ps.mix.first_component if i == 0 else ps.mix.second_component))
                                variants = [("at_curve_temperature", [Tc == ps.T0.t], lambda x, T: fit_value(orig, x, T)),
                                            ("other_temperature", [Tc != ps.T0.t], lambda x, T: fit_value(orig, x, Tc) * EXP(-EA / rv(RG) * (1 / lift(T) - 1 / Tc)))]
                            else:
                                variants = [("set", [], lambda x, T: fit_value(orig, x, T))]
                            for vname, extra, f in variants:
                                if not job.feasible(cs + extra, timeout=5):
                                    continue
                                f0 = f(w0, ps.T0)
                                P0v = lift(dc.permeances[0][i].value)
                                if init_perm:
                                    job.prove(tag + "/%s/point0_is_supplied_permeance%d" % (vname, i + 1), cs + extra, P0v != lift(ps._P00[i][0]), R_, inputs, congruence=["EXP"])
                                else:
                                    job.prove(tag + "/%s/point0_is_fit%d" % (vname, i + 1), cs + extra, terms.exp_normal(P0v) != terms.exp_normal(f0), R_, inputs,
                                              congruence=["EXP"], timeout=40)
                                for k in range(1, len(dc.permeances)):
                                    xk = lift(dc.feed_compositions[k].p)
                                    want = f(xk, ps.T0) * (P0v / f0)
                                    job.prove(tag + "/%s/follows_fit%d/p%d" % (vname, i + 1, k), cs + extra,
                                              terms.exp_normal(lift(dc.permeances[k][i].value)) != terms.exp_normal(want), R_, inputs, congruence=["EXP"], timeout=40)
                    if not got:
                        job.unreached(tag)


JOB_TIMEOUT = {"quick": 500, "thorough": 2400}


def jobs(tier):
    js = [("%s_%s" % (proc.SHORT[k], mode), "processes", {"kind": k, "mode": mode, "tier": tier}) for k in proc.KINDS[2:] for mode in proc.MODES]
    js += [("curve_%s" % mode, "curve", {"mode": mode, "tier": tier}) for mode in proc.MODES]
    return js

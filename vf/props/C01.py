"""C01 -- process models conserve total and per-component mass on a regular time grid."""
import itertools

import z3

from ..symx import lift, SReal
from .. import build, proc, realrun
from ..core import Patches, close

EXPLANATION = ("The four process-model functions are executed for N steps with symbolic area, feed amount, composition, temperature, "
               "step length and precision; the flux calculation, membrane permeance, latent/specific heats and (non-ideal) the best-fit "
               "search are arbitrary functions (purified UFs / recording stubs).  On the returned ProcessModel: all series have length N, "
               "time[k]=k dt, the initial mass/composition(converted to mass fraction)/temperature, fluxes[k] = k-th flux result, and the "
               "total and first-component balances between consecutive steps are asserted and decided by z3.")
OUTSIDE = "step counts above the bound (same loop body); raising runs (rejected compositions) are legal outcomes and not asserted on; float cancellation"
R_ = "vf.props.C01:concrete"
N_TIER = {"quick": (1, 3), "thorough": (1, 2, 3, 4, 5)}


def concrete(inp):
    """mass balance, time grid and initial state of a real run"""
    if not realrun.admissible_process(inp):
        return {"ok": True, "detail": "outside domain"}
    try:
        m, cond, pz = realrun.process(inp)
    except ValueError as e:
        return {"ok": True, "detail": "run rejected: %s" % e}
    N, A, dt = int(inp["N"]), inp["A"], inp["dt"]
    bad = []
    for name, s in proc.series(m).items():
        if len(s) != N:
            bad.append("len(%s)=%d for %d steps" % (name, len(s), N))
    w0 = cond.initial_feed_composition.to_weight(pz.mixture).p
    if len(m.feed_mass) and not close(m.feed_mass[0], inp["m0"]):
        bad.append("feed_mass[0]=%r" % m.feed_mass[0])
    if len(m.feed_compositions) and not (close(m.feed_compositions[0].p, w0) and m.feed_compositions[0].type == "weight"):
        bad.append("feed_compositions[0]=%r (expected mass fraction %r)" % (m.feed_compositions[0], w0))
    if len(m.feed_temperature) and not close(m.feed_temperature[0], inp["T0"]):
        bad.append("feed_temperature[0]=%r" % m.feed_temperature[0])
    for k in range(min(N, len(m.time))):
        if not close(m.time[k], k * dt, 1e-9, 1e-12):
            bad.append("time[%d]=%r, expected %r" % (k, m.time[k], k * dt))
    for k in range(min(N, len(m.feed_mass)) - 1):
        j1, j2 = (float(v) for v in m.partial_fluxes[k])
        want = m.feed_mass[k] - (j1 + j2) * A * dt
        if not close(m.feed_mass[k + 1], want, 1e-9, 1e-12 * inp["m0"]):
            bad.append("step %d: feed mass %r, balance gives %r" % (k, m.feed_mass[k + 1], want))
        c1 = m.feed_mass[k] * m.feed_compositions[k].p - j1 * A * dt
        if not close(m.feed_mass[k + 1] * m.feed_compositions[k + 1].p, c1, 1e-9, 1e-12 * inp["m0"]):
            bad.append("step %d: first-component mass %r, balance gives %r" % (k, m.feed_mass[k + 1] * m.feed_compositions[k + 1].p, c1))
    return {"ok": not bad, "detail": "%s %s: %s" % (inp["kind"], inp.get("mixture"), "; ".join(bad[:3])), "inputs": inp}


def configs(kind, mode, tier):
    ideal = not kind.startswith("non_ideal")
    iso = "non_isothermal" not in kind
    progs = (None,) if iso else proc.PROGRAMS
    nc = (None,) if ideal else (1, 2)
    ip = (None,) if ideal else (False, True)
    full = list(itertools.product(("weight", "molar"), progs, nc, ip))
    if tier == "thorough":
        return full
    # quick: every value of every option appears, in rotating combinations
    out, seen = [], set()
    for i, c in enumerate(full):
        key = [(j, v) for j, v in enumerate(c)]
        if any(k not in seen for k in key) or i % 5 == 0:
            out.append(c)
            seen.update(key)
    return out


def balance(job, kind, mode, tier):
    Ns = N_TIER[tier]
    job.bound(process_steps_N=list(Ns))
    job.stub("FLUX(T, w, precision, permeate condition, P1, P2; model, basis): arbitrary real pair for Pervaporation.calculate_partial_fluxes",
             "PERM_i(T) >= 0 for Membrane.get_permeance", "HVAP_i(T), CP_i(T), COOL_i(t0,t1) for the Component heat functions",
             "find_best_fit -> PervaporationFunction with symbolic alpha, a[], b[] (non-ideal models)", "EA_i for Membrane.calculate_activation_energy")
    job.assume("Composition [0,1] validator and Permeance clamp as assumptions (raising/clamped runs are legal outcomes, not asserted on)",
               "A, m0, dt > 0; 0 < x0 < 1; 273 < T0 < 400; division denominators on the path non-zero")
    for basis, program, n_curves, init_perm in configs(kind, mode, tier):
        for N in Ns:
            ps = proc.ProcSetup(kind, mode, basis, program, N, n_curves=n_curves or 2, initial_permeances=bool(init_perm), ncoef=5)
            dom = ps.domain()
            inputs = ps.inputs()
            fb = [dict(f) for f in realrun.proc_fallback(mode, program)]
            tag = "C01/%s/%s/%s/%s/c%s/ip%d/N%d" % (proc.SHORT[kind], mode, basis, program or "noprog", n_curves or 0, int(bool(init_perm)), N)
            with Patches() as pt:
                ps.install(pt, name_state=True)
                got = 0
                for leaf in job.explore(ps.run, dom, timeout_ms=100):
                    if leaf.kind != "returned":
                        continue
                    got += 1
                    m = leaf.value
                    cs = dom + leaf.conds()
                    A, dt = ps.A.t, ps.dt.t
                    lens = {k: len(v) for k, v in proc.series(m).items()}
                    job.record(tag + "/series_lengths", "discharged" if all(v == N for v in lens.values()) else "violated",
                               "lengths %r for N=%d" % (lens, N), nontrivial=False, replay={"fn": R_, "inputs": dict(fb[0], kind=kind, mode=mode, basis=basis, program=program, N=N)})
                    if any(v != N for v in lens.values()):
                        continue
                    neg = [lift(m.time[k]) != k * dt for k in range(N)]
                    job.prove(tag + "/time_grid", cs, neg, R_, inputs, fallback=fb)
                    neg = [lift(m.feed_mass[0]) != ps.m0.t, lift(m.feed_compositions[0].p) != ps.w0(), lift(m.feed_temperature[0]) != ps.T0.t]
                    job.prove(tag + "/initial_state", cs, neg, R_, inputs, fallback=fb)
                    types_ok = all(c.type == "weight" for c in m.feed_compositions)
                    job.record(tag + "/mass_fraction_basis", "discharged" if types_ok else "violated", "feed composition tags", nontrivial=False,
                               replay={"fn": R_, "inputs": dict(fb[0], kind=kind, mode=mode, basis=basis, program=program, N=N)})
                    if len(ps.calls) != N:
                        job.record(tag + "/one_flux_call_per_step", "violated", "%d flux calls for %d steps" % (len(ps.calls), N))
                        continue
                    neg = []
                    for k in range(N):
                        J1, J2 = ps.calls[k][1]
                        neg += [lift(m.partial_fluxes[k][0]) != J1.t, lift(m.partial_fluxes[k][1]) != J2.t]
                    job.prove(tag + "/fluxes_reported", cs, neg, R_, inputs, fallback=fb)
                    for k in range(N - 1):
                        J1, J2 = ps.calls[k][1]
                        mk, mk1 = lift(m.feed_mass[k]), lift(m.feed_mass[k + 1])
                        pk, pk1 = lift(m.feed_compositions[k].p), lift(m.feed_compositions[k + 1].p)
                        job.prove(tag + "/total_balance/k%d" % k, cs, mk1 != mk - (J1.t + J2.t) * A * dt, R_, inputs, fallback=fb)
                        job.prove(tag + "/component_balance/k%d" % k, cs, mk1 * pk1 != mk * pk - J1.t * A * dt, R_, inputs, fallback=fb)
                    job.twin_sat(tag + "/twin", cs)
                if not got:
                    job.unreached(tag)
    # translator validation: the real model on floats satisfies what was just asserted symbolically
    for f in realrun.proc_fallback(mode)[:1]:
        if kind.startswith("non_ideal") and tier == "quick":
            continue
        r = concrete(dict(f, kind=kind, mode=mode, N=3, basis="weight"))
        job.validated("C01 %s %s" % (kind, mode), r["ok"], r["detail"])
    # the real-arithmetic claim says nothing about how a float time grid is built: the same assertions are therefore also
    # evaluated on the real code at step lengths that are not exact in binary (labelled as concrete points, not solver verdicts)
    grids = ((3, 0.1), (7, 0.3)) if tier == "quick" else ((3, 0.1), (6, 0.2), (7, 0.3), (12, 0.1), (15, 0.7), (24, 0.05))
    if mode == "vac" or tier == "thorough":
        for (N, dt) in grids:
            inp = dict(realrun.proc_fallback(mode)[0], kind=kind, mode=mode, N=N, dt=dt, A=0.01, basis="weight")
            job.refute_concretely("C01/float_grid/%s/%s/N%d_dt%s" % (proc.SHORT[kind], mode, N, dt), R_, inp)
    # ... nor about the type a number arrives in: a whole number of hours, kilograms or square metres given as an int is the same
    # quantity as the float (the library's own tests pass integer step lengths); labelled concrete points as well
    if mode == "vac" or tier == "thorough":
        for (N, dt, m0, A) in ((4, 1, 12.5, 0.04155), (3, 2, 70, 1)):
            inp = dict(realrun.proc_fallback(mode)[0], kind=kind, mode=mode, N=N, dt=dt, A=A, m0=m0, basis="weight")
            job.refute_concretely("C01/integer_inputs/%s/%s/N%d_dt%r_m%r_A%r" % (proc.SHORT[kind], mode, N, dt, m0, A), R_, inp)


JOB_TIMEOUT = {"quick": 400, "thorough": 3000}


def jobs(tier):
    return [("%s_%s" % (proc.SHORT[k], mode), "balance", {"kind": k, "mode": mode, "tier": tier}) for k in proc.KINDS for mode in proc.MODES]

"""C12 -- membrane permeance follows the Arrhenius law of its experiments."""
import itertools
import math

import numpy
import z3

import pyvaporation as pv
from pyvaporation.experiments import IdealExperiment, IdealExperiments
from pyvaporation.membrane import Membrane
from pyvaporation.permeance.permeance import Units
from pyvaporation import utils as pvutils

from ..symx import lift, SReal, real, rv, EXP, LOG, UF, fresh, assume, Pure
from .. import build, terms
from ..core import Patches, close
from .C14 import factor

EXPLANATION = ("Membrane.get_permeance / calculate_activation_energy / get_ideal_selectivity / get_estimated_pure_component_flux are executed "
               "on a membrane with n symbolic experiments per component (distinct symbolic temperatures in any order -- the nearest-experiment "
               "`min` forks on every comparison --, activation energy stated or None, any permeance unit).  numpy.linalg.lstsq is replaced by "
               "its contract (normal equations on the arguments the code passes).  Oracle: nearest experiment by if-chain, Arrhenius factor, "
               "measured value at an experiment's temperature; on an exact Arrhenius line the regression recovers E and the permeance is the "
               "same for every choice of reference experiment.")
OUTSIDE = ("more experiments per component than the bound; exact ties between nearest experiments (excluded by the statement); the numerical "
           "quality of numpy's least squares (only its defining normal equations are used); float rounding")
R_ = "vf.props.C12:concrete"
RG = pvutils.R


def _fcomp(name, M=18.0):
    return pv.Component(name=name, molecular_weight=M, vapour_pressure_constants=pv.VaporPressureConstants(a=7.2, b=-1730.0, c=-39.5),
                        heat_capacity_constants=pv.HeatCapacityConstants(1, 0, 0, 0))


def concrete(inp):
    """real membrane with experiments on an Arrhenius line (or stated energies): every clause numerically"""
    n = int(inp.get("n") or 3)
    E = inp.get("E") if inp.get("E") is not None else 35000.0
    P0 = inp.get("P0") or 0.02
    T = inp.get("T") or 341.0
    if not (P0 > 0 and 260 <= T <= 420 and -60000 <= E <= 120000):
        return {"ok": True, "detail": "outside domain"}
    temps = [inp.get("T%d" % i) for i in range(n)]
    if any(t is None or not 273 <= t <= 400 for t in temps) or len({round(t, 6) for t in temps}) < n:
        temps = [313.15, 353.15, 333.15, 293.15][:n]
    c1, c2 = _fcomp("A", 18.02), _fcomp("B", 46.07)
    bad = []
    import numpy as _np
    scatter = [1.0, 1.07, 0.93, 1.12][:n]
    # mixed sets: one experiment states an energy that is not the slope of the data, the others state none
    for which in (0, n - 1):
        if n < 2:
            break
        Es = E * 0.6 + 5000.0
        exps = [IdealExperiment(name="m", temperature=t, component=c1, permeance=pv.Permeance(P0 * math.exp(-E / RG * (1 / t - 1 / 323.15))),
                                activation_energy=Es if k == which else None) for k, t in enumerate(temps)]
        mem = Membrane(name="m", ideal_experiments=IdealExperiments(experiments=exps))
        for Tq in [T] + [t + 1.5 for t in temps] + [t - 1.5 for t in temps]:
            tn = min(temps, key=lambda t: abs(t - Tq))
            Eo = Es if temps.index(tn) == which else E
            want = P0 * math.exp(-E / RG * (1 / tn - 1 / 323.15)) * math.exp(-Eo / RG * (1 / Tq - 1 / tn))
            got = mem.get_permeance(Tq, c1).value
            if not close(got, want, 1e-7):
                bad.append("mixed set (experiment %d of %r states Ea=%r, data on a line with E=%r): permeance at %r K is %r, nearest experiment (%r K) with %s energy gives %r"
                           % (which, temps, Es, E, Tq, float(got), tn, "its stated" if temps.index(tn) == which else "the regressed", want))
                break
    if inp.get("mixed_units") and n >= 2:
        # the same physical data, each experiment stored in another unit
        ulist = [Units.kg_m2_h_kPa, Units.SI, Units.GPU]
        exps = [IdealExperiment(name="m", temperature=t, component=c1, permeance=pv.Permeance(P0 * math.exp(-E / RG * (1 / t - 1 / 323.15))).convert(ulist[k % 3], c1))
                for k, t in enumerate(temps)]
        mem = Membrane(name="m", ideal_experiments=IdealExperiments(experiments=exps))
        got_E = mem.calculate_activation_energy(c1)
        if not close(got_E, E, 1e-6, 1e-3):
            bad.append("experiments on a line with E=%r stored in different units (%s): regressed activation energy %r" % (E, [u[:3] for u in ulist[:n]], float(got_E)))
        want = P0 * math.exp(-E / RG * (1 / T - 1 / 323.15))
        got = mem.get_permeance(T, c1).value
        if not close(got, want, 1e-6):
            bad.append("experiments stored in different units: permeance at %r K is %r, Arrhenius law of the experiments gives %r" % (T, float(got), want))
    for data in ("line", "scattered"):
        for stated in (False, True):
            if not stated and n < 2:
                continue
            exps, vals = [], {}
            for c, e, p0 in ((c1, E, P0), (c2, 0.6 * E + 1000, 0.1 * P0)):
                for k, t in enumerate(temps):
                    v = p0 * math.exp(-e / RG * (1 / t - 1 / 323.15)) * (scatter[k] if data == "scattered" else 1.0)
                    vals[(c.name, t)] = v
                    exps.append(IdealExperiment(name="m", temperature=t, component=c, permeance=pv.Permeance(v), activation_energy=e if stated else None))
            mem = Membrane(name="m", ideal_experiments=IdealExperiments(experiments=exps))
            # oracle: nearest experiment, stated energy or least-squares slope of ln P vs 1/T
            if stated or n < 2:
                Eo = E
            else:
                Eo = -RG * _np.polyfit([1 / t for t in temps], [math.log(vals[("A", t)]) for t in temps], 1)[0]
            tn = min(temps, key=lambda t: abs(t - T))
            want = vals[("A", tn)] * math.exp(-Eo / RG * (1 / T - 1 / tn))
            got = mem.get_permeance(T, c1).value
            if not close(got, want, 1e-7):
                bad.append("%s data, stated=%s, experiments at %r: permeance at %r K is %r, nearest experiment (%r K) x Arrhenius factor gives %r"
                           % (data, stated, temps, T, float(got), tn, want))
            if data == "line" and n >= 2 and not close(mem.calculate_activation_energy(c1), E, 1e-6, 1e-3):
                bad.append("regressed activation energy %r for data on a line with E=%r" % (float(mem.calculate_activation_energy(c1)), E))
            for t in temps:
                if not close(mem.get_permeance(t, c1).value, vals[("A", t)], 1e-9):
                    bad.append("%s data: permeance at experiment temperature %r is %r, measured %r" % (data, t, float(mem.get_permeance(t, c1).value), vals[("A", t)]))
            if data == "line":
                sw, sm = mem.get_ideal_selectivity(T, c1, c2, "weight"), mem.get_ideal_selectivity(T, c1, c2, "molar")
                if not close(sm, sw * c2.molecular_weight / c1.molecular_weight, 1e-9):
                    bad.append("molar selectivity %r, mass selectivity x M2/M1 = %r" % (float(sm), float(sw * c2.molecular_weight / c1.molecular_weight)))
                ps = c1.get_vapor_pressure
                for kw, pi in (({}, 0.0), ({"permeate_temperature": 290.0}, ps(290.0)), ({"permeate_pressure": 1.5}, 1.5)):
                    f = mem.get_estimated_pure_component_flux(T, c1, **kw)
                    if not close(f, got * (ps(T) - pi), 1e-9):
                        bad.append("pure-component flux %r with %r, permeance x (Psat - permeate) = %r" % (float(f), kw, float(got * (ps(T) - pi))))
                try:
                    mem.get_estimated_pure_component_flux(T, c1, permeate_temperature=290.0, permeate_pressure=1.0)
                    bad.append("pure-component flux accepted both permeate temperature and pressure")
                except ValueError:
                    pass
    return {"ok": not bad, "detail": "; ".join(bad[:3]), "inputs": inp}


def concrete_sequence(inp):
    """both components asked one after the other on one membrane (experiments of both carry the membrane's name): each answer is what a
    membrane that has not been asked anything gives"""
    from pyvaporation.mixtures import Mixtures as _M
    T = inp.get("T")
    if T is None or not 260 < T < 420:
        T = 341.0
    mix = _M.H2O_EtOH
    bad = []
    for stated in (False, True):
        def build_membrane():
            exps = []
            for c, P, E in ((mix.first_component, 0.03, 21000.0), (mix.second_component, 0.002, 64000.0)):
                for j, Te in enumerate((313.15, 333.15, 353.15)):
                    val = P * math.exp(-E / RG * (1 / Te - 1 / 323.15)) * (1.0 + 0.07 * j * (1 if c is mix.first_component else -1))
                    exps.append(IdealExperiment(name="membrane", temperature=Te, component=c, permeance=pv.Permeance(val), activation_energy=(E * (1 + 0.1 * j)) if stated else None))
            return Membrane(name="membrane", ideal_experiments=IdealExperiments(experiments=exps))
        shared = build_membrane()
        for Tq in (T, 322.0, 349.5):
            for c in (mix.first_component, mix.second_component):
                got = shared.get_permeance(Tq, c).value
                want = build_membrane().get_permeance(Tq, c).value
                if not close(got, want, 1e-12, 0):
                    bad.append("%s energies: permeance of %s at %r K asked on a membrane with a history %r, on a fresh membrane %r" % ("stated" if stated else "regressed", c.name, Tq, float(got), float(want)))
    return {"ok": not bad, "detail": "; ".join(bad[:2]), "inputs": inp}


def _lstsq_stub(job):
    def lstsq(a, y, rcond=None):
        """contract of least squares: the returned s satisfies the normal equations A^T A s = A^T y"""
        a = numpy.asarray(a, dtype=object)
        y = numpy.asarray(y, dtype=object)
        m = a.shape[1]
        s = [SReal(fresh("lsq")) for _ in range(m)]
        for i in range(m):
            lhs = z3.RealVal(0)
            rhs = z3.RealVal(0)
            for r in range(a.shape[0]):
                row = z3.RealVal(0)
                for j in range(m):
                    row = row + lift(a[r][j]) * s[j].t
                lhs = lhs + lift(a[r][i]) * row
                rhs = rhs + lift(a[r][i]) * lift(y[r])
            assume(lhs == rhs)
        return (numpy.array(s, dtype=object), None, None, None)

    return lstsq


def _membrane(n, stated, units, line):
    """two components with n experiments each; line: permeances lie on an Arrhenius line with energy E_i"""
    c1, c2 = build.sym_component("1"), build.sym_component("2")
    dom = [c1.molecular_weight.t > 0, c2.molecular_weight.t > 0]
    exps, info = [], {}
    for ci, c in ((1, c1), (2, c2)):
        Ts = [real("T%d_%d" % (ci, j)) for j in range(n)]
        E = real("E%d" % ci)
        P0, Tref = real("P0_%d" % ci), real("Tref%d" % ci)
        dom += [z3.And(t.t > 273, t.t < 400) for t in Ts] + [E.t >= -60000, E.t <= 120000, P0.t > 0, Tref.t > 273, Tref.t < 400]
        dom += [a.t != b.t for a, b in itertools.combinations(Ts, 2)]
        Ps = []
        for j in range(n):
            if line:
                pk = P0.t * EXP(-E.t / rv(RG) * (1 / Ts[j].t - 1 / Tref.t))
            else:
                pk = real("P%d_%d" % (ci, j)).t
                dom.append(pk > 0)
            Ps.append(pk)
            # experiment permeance given in `units` (or, for "mixed", in a different unit per experiment); its kg value is pk
            u_j = [Units.kg_m2_h_kPa, Units.SI, Units.GPU][j % 3] if units == "mixed" else units
            v = pk * factor(Units.kg_m2_h_kPa, c.molecular_weight) / factor(u_j, c.molecular_weight)
            if stated in ("mixed_first", "mixed_last"):
                # one experiment states an energy Es (not the slope of the data), the others state none
                ea = real("Es%d" % ci) if j == (0 if stated == "mixed_first" else n - 1) else None
            else:
                ea = real("Ea%d_%d" % (ci, j)) if stated == "own" else E if stated else None
            ex = IdealExperiment(name="m", temperature=Ts[j], component=c, permeance=build.perm(SReal(v), u_j), activation_energy=ea)
            exps.append(ex)
        info[ci] = dict(Ts=Ts, E=E, P0=P0, Tref=Tref, Ps=Ps, comp=c)
    # interleave the components' experiments (order must not matter)
    exps = [e for pair in zip(exps[:n], exps[n:]) for e in pair]
    mem = Membrane(name="m", ideal_experiments=IdealExperiments(experiments=exps))
    return mem, info, dom


def permeance(job, n, stated, units):
    job.bound(experiments_per_component=n)
    job.stub("numpy.linalg.lstsq -> solution of the normal equations A^T A s = A^T y on the arguments the code passes")
    job.assume("distinct experiment temperatures in (273, 400), query temperature in (260, 420), no ties between nearest experiments",
               "activation energies in [-60, 120] kJ/mol, permeances > 0, molar masses > 0", "LOG of a product with EXP factors is split (positive arguments)")
    T = real("T")
    tag = "C12/n%d/%s/%s" % (n, {None: "unstated", True: "stated", "own": "stated_each", "mixed_first": "mixed_first_stated", "mixed_last": "mixed_last_stated"}[stated],
                            {"kg/(m2*h*kPa)": "kg", "mixed": "mixed_units"}.get(units, units))
    line = stated is None or stated in ("mixed_first", "mixed_last")
    if line and n < 2:
        return
    mem, info, dom0 = _membrane(n, stated, units, line)
    i1 = info[1]
    dom = dom0 + [T.t > 260, T.t < 420]
    # no exact ties
    dist = [z3.If(t.t - T.t >= 0, t.t - T.t, T.t - t.t) for t in i1["Ts"]]
    dom += [a != b for a, b in itertools.combinations(dist, 2)]
    inputs = {"n": n, "T": T.t, "E": i1["E"].t, "P0": i1["P0"].t, "mixed_units": units == "mixed"}
    inputs.update({"T%d" % j: i1["Ts"][j].t for j in range(n)})
    fb = [{"n": n, "T": 341.0, "E": 35000.0, "P0": 0.02}, {"n": n, "T": 290.0, "E": -20000.0, "P0": 0.5}]
    fb += [dict(fb[0], T=tq, T0=t0, T1=t1, T2=t2) for tq in (331.0, 345.0, 352.0) for (t0, t1, t2) in ((343.15, 333.15, 353.15), (353.15, 333.15, 343.15), (333.15, 353.15, 343.15))] if n == 3 else []
    with Patches() as pt:
        pt.set(numpy.linalg, "lstsq", _lstsq_stub(job))
        got = 0
        for leaf in job.explore(lambda: (mem.get_permeance(T, i1["comp"]), mem.calculate_activation_energy(i1["comp"]) if (n >= 2 or stated) else None),
                                dom, timeout_ms=500):
            if leaf.kind != "returned":
                job.prove(tag + "/no_raise", dom + leaf.pc, z3.BoolVal(True), R_, inputs, fallback=fb)
                continue
            got += 1
            P, Ea = leaf.value
            cs = dom + leaf.conds()
            # oracle: nearest experiment by if-chain
            near_T, near_P, near_E = i1["Ts"][0].t, i1["Ps"][0], None
            best = dist[0]
            for j in range(1, n):
                c = dist[j] < best
                near_T = z3.If(c, i1["Ts"][j].t, near_T)
                near_P = z3.If(c, i1["Ps"][j], near_P)
                best = z3.If(c, dist[j], best)
            if stated in ("own", "mixed_first", "mixed_last"):
                # the nearest experiment's own stated energy, else the regressed one (= E for data on a line)
                eas = [lift(e.activation_energy) if e.activation_energy is not None else i1["E"].t
                       for e in mem.ideal_experiments.experiments if e.component is i1["comp"]]
                Eo = eas[0]
                b2 = dist[0]
                for j in range(1, n):
                    c = dist[j] < b2
                    Eo = z3.If(c, eas[j], Eo)
                    b2 = z3.If(c, dist[j], b2)
            else:
                Eo = i1["E"].t
            want = z3.If(near_T == T.t, near_P, near_P * EXP(-Eo / rv(RG) * (1 / T.t - 1 / near_T)))
            job.prove(tag + "/arrhenius_of_nearest", cs, lift(P.value) != want, R_, inputs, fallback=fb, congruence=["EXP"], timeout=40)
            job.record(tag + "/units", "discharged" if P.units == Units.kg_m2_h_kPa else "violated", "units %r" % P.units, nontrivial=False,
                       replay={"fn": R_, "inputs": fb[0]})
            if stated is None and Ea is not None:
                job.prove(tag + "/regression_recovers_E", cs, lift(Ea) != i1["E"].t, R_, inputs, fallback=fb, timeout=40)
                # on an Arrhenius line the permeance is P0 exp(-E/R (1/T - 1/Tref)) whichever experiment is nearest
                ref = i1["P0"].t * EXP(-i1["E"].t / rv(RG) * (1 / T.t - 1 / i1["Tref"].t))
                lhs = terms.exp_normal(lift(P.value))
                job.prove(tag + "/independent_of_reference", cs + [lift(Ea) == i1["E"].t], lhs != ref, R_, inputs, fallback=fb, congruence=["EXP"], timeout=40)
            for j in range(n):
                pass
            job.twin_sat(tag + "/twin", cs)
        if not got:
            job.unreached(tag)
        # at an experiment's temperature the measured value is returned
        for j in range(n):
            Tj = i1["Ts"][j]
            for leaf in job.explore(lambda: mem.get_permeance(Tj, i1["comp"]), dom0, timeout_ms=500):
                if leaf.kind == "returned":
                    job.prove(tag + "/measured_value_at_T%d" % j, dom0 + leaf.conds(), lift(leaf.value.value) != i1["Ps"][j], R_, inputs, fallback=fb)
                else:
                    job.prove(tag + "/measured_value_at_T%d/no_raise" % j, dom0 + leaf.pc, z3.BoolVal(True), R_, inputs, fallback=fb)


def sequence(job, stated):
    """both components asked one after the other on one membrane object (their experiments carry the same name, the library's convention):
    the second answer is what a membrane that has not been asked anything gives"""
    n = 2
    job.bound(experiments_per_component=n, questions_in_sequence=2)
    job.stub("numpy.linalg.lstsq -> solution of the normal equations")
    T = real("T")
    mem, info, dom0 = _membrane(n, stated, Units.kg_m2_h_kPa, stated is None)
    i1, i2 = info[1], info[2]
    dom = dom0 + [T.t > 260, T.t < 420]
    for i_ in (i1, i2):
        dist = [z3.If(t.t - T.t >= 0, t.t - T.t, T.t - t.t) for t in i_["Ts"]]
        dom += [a != b for a, b in itertools.combinations(dist, 2)] + [t.t != T.t for t in i_["Ts"]]
    tag = "C12/sequence/%s" % ("unstated" if stated is None else "stated_each")
    with Patches() as pt:
        pt.set(numpy.linalg, "lstsq", _lstsq_stub(job))

        def ask():
            mem.get_permeance(T, i1["comp"])
            P2 = mem.get_permeance(T, i2["comp"])
            fresh = Membrane(name="m", ideal_experiments=IdealExperiments(experiments=list(mem.ideal_experiments.experiments)))
            return P2, fresh.get_permeance(T, i2["comp"])

        got = 0
        for leaf in job.explore(ask, dom, timeout_ms=500):
            if leaf.kind != "returned":
                continue
            got += 1
            P2, P2_fresh = leaf.value
            job.prove(tag + "/other_component_asked_second_as_on_a_fresh_membrane", dom + leaf.conds(), lift(P2.value) != lift(P2_fresh.value),
                      "vf.props.C12:concrete_sequence", {"T": T.t}, fallback=[{"T": 341.0}], congruence=["EXP", "LOG"], timeout=30)
        if not got:
            job.unreached(tag)


def derived(job):
    """selectivity and pure-component flux on top of get_permeance (stub: PERM_i(T) >= 0 in kg units, as shown above)"""
    job.stub("PSAT_i(T) > 0", "get_permeance exercised for real (n = 1, stated energy)")
    T, Tp, Pp = real("T"), real("Tp"), real("Pp")
    mem, info, dom0 = _membrane(1, True, Units.kg_m2_h_kPa, False)
    c1, c2 = info[1]["comp"], info[2]["comp"]
    dom = dom0 + [T.t > 260, T.t < 420, Tp.t > 120, Tp.t <= T.t, Pp.t >= 0, Pp.t <= 100, T.t != info[1]["Ts"][0].t, T.t != info[2]["Ts"][0].t]
    inputs = {"n": 1, "T": T.t}
    fb = [{"n": 3, "T": 341.0}]
    mix = build.sym_mixture(c1, c2)
    with Patches() as pt:
        build.stub_thermo(pt, mix, gamma=False)
        for leaf in job.explore(lambda: (mem.get_ideal_selectivity(T, c1, c2, "weight"), mem.get_ideal_selectivity(T, c1, c2, "molar"),
                                         mem.get_permeance(T, c1), mem.get_permeance(T, c2)), dom, timeout_ms=500):
            if leaf.kind != "returned":
                job.prove("C12/selectivity/no_raise", dom + leaf.pc, z3.BoolVal(True), R_, inputs, fallback=fb)
                continue
            sw, sm, p1, p2 = leaf.value
            cs = dom + leaf.conds() + [lift(p1.value) > 0, lift(p2.value) > 0]
            job.prove("C12/selectivity/weight", cs, lift(sw) != lift(p1.value) / lift(p2.value), R_, inputs, fallback=fb)
            job.prove("C12/selectivity/molar_is_weight_times_M2_over_M1", cs, lift(sm) != lift(sw) * c2.molecular_weight.t / c1.molecular_weight.t, R_, inputs, fallback=fb)
        cases = [("vacuum", {}, lambda ps: 0), ("permeate_temperature", {"permeate_temperature": Tp}, lambda ps: UF("PSAT1", Tp, pos=True)),
                 ("permeate_pressure", {"permeate_pressure": Pp}, lambda ps: Pp.t)]
        for name, kw, pi in cases:
            for leaf in job.explore(lambda: (mem.get_estimated_pure_component_flux(T, c1, **kw), mem.get_permeance(T, c1)), dom, timeout_ms=500):
                if leaf.kind != "returned":
                    job.prove("C12/pure_flux/%s/no_raise" % name, dom + leaf.pc, z3.BoolVal(True), R_, inputs, fallback=fb)
                    continue
                f, p = leaf.value
                job.prove("C12/pure_flux/%s" % name, dom + leaf.conds(), lift(f) != lift(p.value) * (UF("PSAT1", T, pos=True) - pi(None)), R_, inputs, fallback=fb)
        n_ret = 0
        for leaf in job.explore(lambda: mem.get_estimated_pure_component_flux(T, c1, permeate_temperature=Tp, permeate_pressure=Pp), dom, timeout_ms=500):
            if leaf.kind == "raised" and isinstance(leaf.value, ValueError):
                job.record("C12/pure_flux/both_specified_raises", "discharged", "ValueError")
            else:
                job.prove("C12/pure_flux/both_specified_raises", dom + leaf.pc, z3.BoolVal(True), R_, inputs, fallback=fb)


JOB_TIMEOUT = {"quick": 400, "thorough": 2400}


def jobs(tier):
    ns = (1, 2, 3) if tier == "quick" else (1, 2, 3, 4)
    js = []
    for n in ns:
        for stated in (None, True, "own", "mixed_first", "mixed_last"):
            if stated in (None, "mixed_first", "mixed_last") and n < 2:
                continue
            for units in ((Units.kg_m2_h_kPa,) if (tier == "quick" and n == 3) else (Units.kg_m2_h_kPa, Units.SI, Units.GPU)):
                js.append(("perm_n%d_%s_%s" % (n, stated, units[:2]), "permeance", {"n": n, "stated": stated, "units": units}))
    for n in (2, 3):
        for stated in (None, True):
            js.append(("perm_n%d_%s_mixed_units" % (n, stated), "permeance", {"n": n, "stated": stated, "units": "mixed"}))
    js.append(("derived", "derived", {}))
    js += [("sequence_unstated", "sequence", {"stated": None}), ("sequence_stated_each", "sequence", {"stated": "own"})]
    return js

"""C13 -- latent and cooling heats are consistent with vapour pressure and heat capacity."""
import math

import z3

import pyvaporation as pv
from pyvaporation.components import Components
from pyvaporation import utils as pvutils

from ..symx import real, lift, rv, SReal
from .. import build, terms
from ..core import close

EXPLANATION = ("Component.get_vapor_pressure / get_vaporisation_heat / get_specific_heat / get_cooling_heat are executed with all "
               "constants and temperatures symbolic; the executed pressure term is differentiated symbolically (ln-extraction, "
               "d/dT) and 1000 H = R T^2 dlnP/dT is asserted as a rational identity; cooling heat: additivity, antisymmetry, zero "
               "interval and d/dt0 C(t0,t1) = cp(t0) on the executed polynomial.")
OUTSIDE = ("floating-point rounding; ln(10) is identified with the double numpy.log(10) (relative 1e-17); the Antoine pole T + c = 0 "
           "is excluded from the domain; no unrolling bound is involved")
R_ = "vf.props.C13:concrete"


def _fcomp(kind, a, b, c, cp=(1.0, 0.0, 0.0, 0.0)):
    return pv.Component(name="x", molecular_weight=1.0,
                        vapour_pressure_constants=pv.VaporPressureConstants(a=a, b=b, c=c, type=kind),
                        heat_capacity_constants=pv.HeatCapacityConstants(*cp))


def _fcomp_edited(kind, a, b, c, how):
    """a component whose constant set was changed after construction ("for every constant set": the classes are mutable)"""
    other = "frost" if (how == "other_kind" and kind == "antoine") else kind
    comp = _fcomp(other, 1.0, 1.0, 1.0)
    if how == "in_place" and other == kind:
        k = comp.vapour_pressure_constants
        k.a, k.b, k.c = a, b, c
    else:
        comp.vapour_pressure_constants = pv.VaporPressureConstants(a=a, b=b, c=c, type=kind)
    return comp


def concrete(inp):
    kind = inp.get("kind", "antoine")
    bad = []
    if all(inp.get(k) is not None for k in ("a", "b", "c", "T")):
        a, b, c, T = (float(inp[k]) for k in ("a", "b", "c", "T"))
        if T > 1 and (kind != "antoine" or abs(T + c) > 1e-3 * T):
            for route, comp in (("fresh component", _fcomp(kind, a, b, c)), ("constants edited in place", _fcomp_edited(kind, a, b, c, "in_place")),
                                ("constant set replaced", _fcomp_edited(kind, a, b, c, "replaced")), ("constant set of the other equation replaced", _fcomp_edited(kind, a, b, c, "other_kind"))):
                h = 2e-3 * T
                try:
                    lp = lambda t: math.log(float(comp.get_vapor_pressure(t)))
                    d = (lp(T - 2 * h) - 8 * lp(T - h) + 8 * lp(T + h) - lp(T + 2 * h)) / (12 * h)  # 5-point stencil
                    want = pvutils.R * T * T * d
                    got = 1000 * float(comp.get_vaporisation_heat(T))
                    if not close(got, want, 2e-7, 1e-9):
                        bad.append("%s (%s): 1000*H(T=%r)=%r but R T^2 dlnP/dT=%r" % (kind, route, T, got, want))
                except (OverflowError, ValueError):
                    pass
    if all(inp.get(k) is not None for k in ("ca", "cb", "cc", "cd", "t0", "t1", "t2")):
        cp = tuple(float(inp[k]) for k in ("ca", "cb", "cc", "cd"))
        t0, t1, t2 = (float(inp[k]) for k in ("t0", "t1", "t2"))
        comp = _fcomp("antoine", 1, 1, 1, cp)
        C = comp.get_cooling_heat
        scale = max(1.0, abs(C(t0, t1)), abs(C(t1, t2)), abs(C(t0, t2)))
        if abs(C(t0, t1) + C(t1, t2) - C(t0, t2)) > 1e-9 * scale:
            bad.append("cooling heat not additive at %r" % ((t0, t1, t2),))
        if abs(C(t0, t1) + C(t1, t0)) > 1e-9 * scale:
            bad.append("cooling heat not antisymmetric")
        if abs(C(t0, t0)) > 1e-9 * scale:
            bad.append("cooling heat over empty interval %r" % C(t0, t0))
        h = 1e-4 * max(1.0, abs(t0))
        d = (C(t0 + h, t1) - C(t0 - h, t1)) / (2 * h)
        if not close(d, comp.get_specific_heat(t0), 1e-5, 1e-6 * scale):
            bad.append("dC/dt0=%r but cp(t0)=%r" % (d, comp.get_specific_heat(t0)))
    return {"ok": not bad, "detail": "; ".join(bad)}


def concrete_integer_temperature(inp):
    """'at every temperature': a whole number of kelvins given as an int (the library's own tests call it like that) and as a float are the
    same temperature -- a labelled concrete point (the dtype of a number has no counterpart in real arithmetic)"""
    import numpy
    bad = []
    comps = [("antoine", _fcomp("antoine", 7.20389, -1733.926, -39.485)), ("frost", _fcomp("frost", 16.0, -3800.0, -200000.0))]
    comps += [("built-in %s" % n, getattr(Components, n)) for n in ("H2O", "EtOH")]
    for label, comp in comps:
        for t in (300, 350, numpy.int64(375)):
            for fn in (comp.get_vapor_pressure, comp.get_vaporisation_heat, comp.get_specific_heat):
                a, b = float(fn(t)), float(fn(float(t)))
                if not close(a, b, 1e-12, 0):
                    bad.append("%s %s(%r) = %r but %s(%r) = %r" % (label, fn.__name__, t, a, fn.__name__, float(t), b))
            a, b = float(comp.get_cooling_heat(t, 290)), float(comp.get_cooling_heat(float(t), 290.0))
            if not close(a, b, 1e-12, 0):
                bad.append("%s get_cooling_heat(%r, 290) = %r, with floats %r" % (label, t, a, b))
    return {"ok": not bad, "detail": "; ".join(bad[:3]), "inputs": inp}


FALLBACK = [{"a": 7.20389, "b": -1733.926, "c": -39.485, "T": 333.15}, {"a": 16.3, "b": -3800.0, "c": -230000.0, "T": 350.0}]


def _cc(job, tag, comp, T, dom, inputs):
    """Clausius-Clapeyron on the executed terms of one component"""
    Rg = rv(pvutils.R)
    n = 0
    for leaf in job.explore(lambda: (comp.get_vapor_pressure(T), comp.get_vaporisation_heat(T)), dom):
        if leaf.kind != "returned":
            job.prove(tag + "/no_raise", dom + leaf.pc, z3.BoolVal(True), R_, inputs)
            continue
        n += 1
        P, H = leaf.value
        lnP = terms.ln(lift(P))
        residual = 1000 * lift(H) - Rg * T.t * T.t * terms.deriv(lnP, T.t)
        cons, nf = terms.zero_query(residual)
        job.prove(tag + "/clausius_clapeyron", dom + leaf.conds() + cons[:-1], cons[-1], R_, inputs, fallback=FALLBACK)
        job.twin_sat(tag + "/twin", dom + leaf.conds() + cons[:-1])
    if n == 0:
        job.vacuity["failed"].append(tag)


def vapour(job, thorough=False):
    job.bound(no_unrolling_bound="identities in (a, b, c, T)")
    job.assume("T > 0", "Antoine: T + c != 0 (pole excluded)", "LOG(10) identified with the double numpy.log(10)")
    T = real("T")
    for kind in ("antoine", "frost"):
        comp = build.sym_component("1", vp_type=kind)
        k = comp.vapour_pressure_constants
        dom = [T.t > 0] + ([T.t + k.c.t != 0] if kind == "antoine" else [])
        inputs = {"a": k.a.t, "b": k.b.t, "c": k.c.t, "T": T.t, "kind": kind}
        _cc(job, "C13/%s" % kind, comp, T, dom, inputs)
        # translator validation on the repo's own test points (H2O constants, 293..373 K)
        for leaf in job.explore(lambda: (comp.get_vapor_pressure(T), comp.get_vaporisation_heat(T)), dom):
            if leaf.kind == "returned":
                P, H = leaf.value
                for (a, b, c, t) in ((7.20389, -1733.926, -39.485, 333.15), (job.rng.uniform(5, 9), job.rng.uniform(-2500, -900), job.rng.uniform(-60, -10), job.rng.uniform(280, 400))):
                    if kind == "frost":
                        a, b, c = 16.0, -3800.0, -200000.0
                    fc = _fcomp_edited(kind, a, b, c, "in_place")  # built the way the symbolic component is: constants assigned after construction
                    env = {"vpa_1": a, "vpb_1": b, "vpc_1": c, "T": t}
                    if not job.on_path(leaf, env):
                        continue
                    job.validated("P %s" % kind, close(terms.evaluate(lift(P), env), fc.get_vapor_pressure(t), 1e-9))
                    job.validated("H %s" % kind, close(terms.evaluate(lift(H), env), fc.get_vaporisation_heat(t), 1e-9))
    job.refute_concretely("C13/integer_temperatures", "vf.props.C13:concrete_integer_temperature", {})
    # every built-in component, constants lifted exactly
    for name in sorted(n for n in vars(Components) if isinstance(getattr(Components, n), pv.Component)):
        comp = build.lift_obj(getattr(Components, name))
        c = comp.vapour_pressure_constants
        dom = [T.t > 0] + ([T.t + c.c.t != 0] if c.type == "antoine" else [])
        _cc(job, "C13/builtin/%s" % name, comp, T, dom,
            {"T": T.t, "a": c.a.t, "b": c.b.t, "c": c.c.t, "kind": c.type})


def cooling(job):
    job.bound(no_unrolling_bound="polynomial identities in (cp a..d, t0, t1, t2)")
    comp = build.sym_component("1")
    h = comp.heat_capacity_constants
    t0, t1, t2 = real("t0"), real("t1"), real("t2")
    inputs = {"ca": h.a.t, "cb": h.b.t, "cc": h.c.t, "cd": h.d.t, "t0": t0.t, "t1": t1.t, "t2": t2.t}

    def run():
        C = comp.get_cooling_heat
        return C(t0, t1), C(t1, t2), C(t0, t2), C(t1, t0), C(t0, t0), comp.get_specific_heat(t0), comp.get_specific_heat(t1)

    n = 0
    for leaf in job.explore(run, []):
        if leaf.kind != "returned":
            job.prove("C13/cooling/no_raise", leaf.pc, z3.BoolVal(True), R_, inputs)
            continue
        n += 1
        c01, c12, c02, c10, c00, cp0, cp1 = (lift(x) for x in leaf.value)
        cs = leaf.conds()
        job.prove("C13/cooling/additive", cs, c01 + c12 != c02, R_, inputs)
        job.prove("C13/cooling/antisymmetric", cs, c01 != -c10, R_, inputs)
        job.prove("C13/cooling/empty_interval", cs, c00 != 0, R_, inputs)
        job.prove("C13/cooling/derivative_upper", cs, terms.deriv(c01, t0.t) != cp0, R_, inputs)
        job.prove("C13/cooling/derivative_lower", cs, terms.deriv(c01, t1.t) != -cp1, R_, inputs)
        job.twin_sat("C13/cooling/twin", cs + [c01 != 0])
        fc = _fcomp("antoine", 1, 1, 1, (32.2, 1.924e-3, 1.055e-5, -3.596e-9))
        env = {"cpa_1": 32.2, "cpb_1": 1.924e-3, "cpc_1": 1.055e-5, "cpd_1": -3.596e-9, "t0": 333.15, "t1": 293.15, "t2": 0.0}
        job.validated("cooling", close(terms.evaluate(c01, env), fc.get_cooling_heat(333.15, 293.15)))
        job.validated("cp", close(terms.evaluate(cp0, env), fc.get_specific_heat(333.15)))
    if n == 0:
        job.vacuity["failed"].append("cooling")


def jobs(tier):
    return [("vapour", "vapour", {}), ("cooling", "cooling", {})]

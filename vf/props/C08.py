"""C08 -- all entry points answer the same question identically (incl. model choice)."""
import warnings

import z3

import pyvaporation as pv
from pyvaporation.mixtures import Mixtures
from pyvaporation.mixtures import mixture as mixmod
from pyvaporation.pervaporation.pervaporation import Pervaporation

from ..symx import lift, SReal, real, UF
from .. import build, flux, proc, realrun
from ..core import Patches, close

EXPLANATION = ("The standalone flux calculation, calculate_permeate_composition, calculate_separation_factor and a one-point "
               "ideal_diffusion_curve are executed on the same symbolic question (real flux loop, K iterations; activity coefficients as UFs "
               "keyed by the model name, so a helper that falls back to another model asks a different UF); derived metrics are compared "
               "with J1/(J1+J2), (y1/y2)/(x1/x2) in mass basis and (J1+J2)(sf-1).  Process level: the arguments recorded for the k-th flux call "
               "must equal the reported state k (temperature, composition, permeances, permeate condition, precision, model).")
OUTSIDE = "flux-loop exits after more than K iterations; process steps above the bound; float rounding"
R_ = "vf.props.C08:concrete"
K_TIER = {"quick": 1, "thorough": 2}


def _pz(mix_name, P1=0.036091, P2=0.0000282):
    mix = getattr(Mixtures, mix_name or "H2O_EtOH")
    return Pervaporation(realrun.membrane_for(mix, P1, P2), mix), mix


def concrete(inp):
    """all entry points on the real code for one question"""
    T, x = inp.get("T"), inp.get("x")
    if T is None or x is None or not (273 < T < 400 and 0 < x < 1):
        return {"ok": True, "detail": "outside domain"}
    model, basis = inp.get("model", "NRTL"), inp.get("basis", "weight")
    Tp, Pp = inp.get("Tp"), inp.get("Pp")
    prec = inp.get("prec") or 5e-5
    if not 0 < prec <= 1e-2:
        prec = 5e-5
    bad = []
    for name in ([inp["mixture"]] if inp.get("mixture") else ["H2O_EtOH", "H2O_iPOH"]):
        pz, mix = _pz(name)
        comp = mixmod.Composition(x, basis)
        try:
            with warnings.catch_warnings():
                warnings.simplefilter("ignore")
                j = pz.calculate_partial_fluxes(T, comp, prec, Tp, Pp, calculation_type=model)
                y = float(j[0] / (j[0] + j[1]))
                w = comp.to_weight(mix).p
                pc = pz.calculate_permeate_composition(T, comp, prec, Tp, Pp, model)
                sf = pz.calculate_separation_factor(T, comp, Tp, Pp, prec, model)
                dc = pz.ideal_diffusion_curve(T, [comp], Tp, Pp, prec, model)
        except ValueError:
            continue
        if not close(pc.p, y, 1e-9):
            bad.append("%s %s: permeate composition helper %r, fluxes give %r" % (name, model, float(pc.p), y))
        want_sf = (y / (1 - y)) / (w / (1 - w))
        if not close(sf, want_sf, 1e-8):
            bad.append("%s %s %s feed: separation factor helper %r, (y1/y2)/(x1/x2) in mass basis %r" % (name, model, basis, float(sf), want_sf))
        if not (close(dc.partial_fluxes[0][0], j[0], 1e-9) and close(dc.partial_fluxes[0][1], j[1], 1e-9)):
            bad.append("%s %s: one-point curve fluxes %r, standalone %r" % (name, model, dc.partial_fluxes[0], tuple(j)))
        if not close(dc.permeate_composition[0].p, float(dc.partial_fluxes[0][0] / sum(dc.partial_fluxes[0])), 1e-9):
            bad.append("curve permeate composition")
        sfc = dc.get_separation_factor[0]
        yc = float(dc.permeate_composition[0].p)
        if not close(sfc, (yc / (1 - yc)) / (w / (1 - w)), 1e-8):
            bad.append("%s %s %s feed: curve separation factor %r, mass basis %r" % (name, model, basis, float(sfc), (yc / (1 - yc)) / (w / (1 - w))))
        if not close(dc.get_psi[0], float(sum(dc.partial_fluxes[0])) * (float(sfc) - 1), 1e-9):
            bad.append("curve psi")
        if Tp is None and Pp is None:
            # no permeate condition: flux = permeance x feed partial pressure of the selected model, so the curve must report the membrane's permeances
            want = [pz.membrane.get_permeance(T, c).value for c in (mix.first_component, mix.second_component)]
            got = [float(p.value) for p in dc.permeances[0]]
            if not (close(got[0], want[0], 1e-9) and close(got[1], want[1], 1e-9)):
                bad.append("%s %s: one-point curve reports permeances %r, the membrane's are %r (curve inverted with another activity model)" % (name, model, got, want))
    return {"ok": not bad, "detail": "; ".join(bad[:3]), "inputs": inp}


def entry_points(job, mode, model, basis, K):
    job.bound(flux_iterations_K=K, curve_points=1)
    job.stub("GAMMA_i^model(T, x) > 0 keyed by the activity model", "PSAT_i(T) > 0", "PERM_i(T) >= 0 for Membrane.get_permeance")
    job.assume("Composition validator as assumption", "273 < T < 400, 0 < x < 1, 0 < precision <= 1, permeate condition in range", "denominators non-zero")
    fs = flux.FluxSetup(mode, model)
    fs.pz.membrane = build.StubMembrane(fs.mix)
    dom = fs.domain()
    inputs = fs.inputs(basis=basis)
    fb = [dict(f, basis=basis, model=model) for f in flux.fallback_for(mode)]
    tag = "C08/%s/%s/%s" % (mode, model, basis)
    M1, M2 = fs.M1, fs.M2
    w = fs.x.t if basis == "weight" else build.w_of_x(fs.x, M1, M2)
    with Patches() as pt:
        build.stub_thermo(pt, fs.mix)
        build.assume_validator(pt)
        cnt = flux.LoopCounter(pt, K)

        def run():
            comp = build.comp(fs.x, basis)
            out = {}
            cnt.reset()
            out["direct"] = fs.pz.calculate_partial_fluxes(fs.T, comp, fs.prec, fs.Tp, fs.Pp, calculation_type=model)
            cnt.reset()
            out["pc"] = fs.pz.calculate_permeate_composition(fs.T, comp, fs.prec, fs.Tp, fs.Pp, model)
            cnt.reset()
            out["sf"] = fs.pz.calculate_separation_factor(fs.T, comp, fs.Tp, fs.Pp, fs.prec, model)
            cnt.reset()
            dc = fs.pz.ideal_diffusion_curve(fs.T, [comp], fs.Tp, fs.Pp, fs.prec, model)
            out["dc"] = dc
            out["dc_pc"] = dc.permeate_composition
            out["dc_sf"] = dc.get_separation_factor
            out["dc_psi"] = dc.get_psi
            return out

        got = 0
        for leaf in job.explore(run, dom, timeout_ms=300):
            if leaf.kind != "returned":
                continue
            got += 1
            o = leaf.value
            cs = dom + leaf.conds()
            J1, J2 = lift(o["direct"][0]), lift(o["direct"][1])
            y = J1 / (J1 + J2)
            cg = ["GAMMA1_NRTL", "GAMMA2_NRTL", "GAMMA1_UNIQUAC", "GAMMA2_UNIQUAC", "PSAT1", "PSAT2", "PERM1", "PERM2"]
            job.prove(tag + "/permeate_composition_helper", cs, lift(o["pc"].p) != y, R_, inputs, fallback=fb, congruence=cg, timeout=20)
            want_sf = (y / (1 - y)) / (w / (1 - w))
            job.prove(tag + "/separation_factor_helper", cs, lift(o["sf"]) != want_sf, R_, inputs, fallback=fb, congruence=cg, timeout=20)
            dc = o["dc"]
            job.prove(tag + "/one_point_curve_fluxes", cs, [lift(dc.partial_fluxes[0][0]) != J1, lift(dc.partial_fluxes[0][1]) != J2],
                      R_, inputs, fallback=fb, congruence=cg, timeout=20)
            yc = lift(dc.partial_fluxes[0][0]) / (lift(dc.partial_fluxes[0][0]) + lift(dc.partial_fluxes[0][1]))
            job.prove(tag + "/curve_permeate_composition", cs, lift(o["dc_pc"][0].p) != yc, R_, inputs, fallback=fb, timeout=20)
            job.prove(tag + "/curve_separation_factor", cs, lift(o["dc_sf"][0]) != (yc / (1 - yc)) / (w / (1 - w)), R_, inputs, fallback=fb, timeout=20)
            job.prove(tag + "/curve_psi", cs, lift(o["dc_psi"][0]) != (lift(dc.partial_fluxes[0][0]) + lift(dc.partial_fluxes[0][1])) * (lift(o["dc_sf"][0]) - 1),
                      R_, inputs, fallback=fb, timeout=20)
            if mode == "vac":
                job.prove(tag + "/one_point_curve_permeances", cs,
                          [lift(dc.permeances[0][i].value) != UF("PERM%d" % (i + 1), fs.T, nonneg=True) for i in (0, 1)],
                          R_, inputs, fallback=fb, congruence=cg, timeout=20)
            job.record(tag + "/permeate_basis_tag", "discharged" if o["pc"].type == "weight" else "violated", "", nontrivial=False,
                       replay={"fn": R_, "inputs": dict(fb[0])})
        if not got:
            job.unreached(tag)


def concrete_process(inp):
    """every process step's fluxes equal a standalone flux calculation at that step's reported state"""
    if not realrun.admissible_process(inp):
        return {"ok": True, "detail": "outside domain"}
    try:
        m, cond, pz = realrun.process(inp)
    except ValueError as e:
        return {"ok": True, "detail": "run rejected: %s" % e}
    bad = []
    for k in range(len(m.time)):
        j = pz.calculate_partial_fluxes(feed_temperature=m.feed_temperature[k], composition=m.feed_compositions[k], precision=inp.get("prec") or 5e-5,
                                        permeate_temperature=inp.get("Tp"), permeate_pressure=inp.get("Pp"),
                                        first_component_permeance=m.permeances[k][0], second_component_permeance=m.permeances[k][1],
                                        calculation_type=inp.get("model", "NRTL"))
        for i in (0, 1):
            if not close(j[i], m.partial_fluxes[k][i], 1e-9):
                bad.append("step %d flux%d: reported %r, standalone at the reported state %r" % (k, i + 1, float(m.partial_fluxes[k][i]), float(j[i])))
        if not inp["kind"].startswith("non_ideal"):
            # an ideal model's state carries no permeances of its own: the standalone calculation looks them up in the membrane
            j0 = pz.calculate_partial_fluxes(feed_temperature=m.feed_temperature[k], composition=m.feed_compositions[k], precision=inp.get("prec") or 5e-5,
                                             permeate_temperature=inp.get("Tp"), permeate_pressure=inp.get("Pp"), calculation_type=inp.get("model", "NRTL"))
            for i in (0, 1):
                if not close(j0[i], m.partial_fluxes[k][i], 1e-9):
                    bad.append("step %d flux%d: reported %r, standalone at the reported temperature and composition (membrane permeances) %r"
                               % (k, i + 1, float(m.partial_fluxes[k][i]), float(j0[i])))
        y = float(m.partial_fluxes[k][0] / sum(m.partial_fluxes[k]))
        if not close(m.permeate_composition[k].p, y, 1e-9):
            bad.append("step %d permeate composition %r vs %r" % (k, m.permeate_composition[k].p, y))
        w = m.feed_compositions[k].p
        if not close(m.get_separation_factor[k], (y / (1 - y)) / (w / (1 - w)), 1e-8):
            bad.append("step %d separation factor" % k)
    return {"ok": not bad, "detail": "%s %s: %s" % (inp["kind"], inp.get("model"), "; ".join(bad[:3])), "inputs": inp}


def process_steps(job, kind, mode, tier):
    N = 2 if tier == "quick" else 3
    job.bound(process_steps_N=N)
    job.stub("FLUX(...) recording stub for calculate_partial_fluxes", "PERM_i(T)", "HVAP/CP/COOL", "find_best_fit -> symbolic function", "EA_i")
    R2 = "vf.props.C08:concrete_process"
    from ..symx import UF
    ideal = not kind.startswith("non_ideal")
    configs = [(model, basis, None) for model in ("NRTL", "UNIQUAC") for basis in ("weight", "molar")]
    if "non_isothermal" in kind:
        configs.append(("NRTL", "weight", "polynomial"))
    for model, basis, program in configs:
        if True:
            ps = proc.ProcSetup(kind, mode, basis, program, N, n_curves=2, model=model)
            dom = ps.domain()
            inputs = ps.inputs()
            fb = [dict(f) for f in realrun.proc_fallback(mode, program)]
            # finely resolved runs (temperature moving by ~1e-3 K per step) as further replay points
            fb += [dict(f, A=0.05, m0=60.0, dt=0.002, N=6) for f in realrun.proc_fallback(mode, program)[:1]]
            tag = "C08/process/%s/%s/%s/%s" % (proc.SHORT[kind], mode, model, basis) + ("/" + program if program else "")
            with Patches() as pt:
                ps.install(pt, name_state=True)
                got = 0
                for leaf in job.explore(ps.run, dom, timeout_ms=100):
                    if leaf.kind != "returned":
                        continue
                    m = leaf.value
                    if len(ps.calls) != N:
                        job.record(tag + "/one_call_per_step", "violated", "%d calls" % len(ps.calls), replay={"fn": R2, "inputs": dict(fb[0], kind=kind, mode=mode, model=model, basis=basis, N=N)})
                        continue
                    got += 1
                    cs = dom + leaf.conds()
                    for k in range(N):
                        a, j = ps.calls[k]
                        neg = [lift(a["feed_temperature"]) != lift(m.feed_temperature[k]), lift(a["composition"].p) != lift(m.feed_compositions[k].p),
                               lift(a["first_component_permeance"].value) != lift(m.permeances[k][0].value),
                               lift(a["second_component_permeance"].value) != lift(m.permeances[k][1].value),
                               lift(a["precision"]) != ps.prec.t]
                        struct_ok = (a["calculation_type"] == model and a["composition"].type == m.feed_compositions[k].type
                                     and (a["permeate_temperature"] is None) == (ps.Tp is None) and (a["permeate_pressure"] is None) == (ps.Pp is None)
                                     and a["first_component_permeance"].units == pv.Units.kg_m2_h_kPa)
                        if ps.Tp is not None and a["permeate_temperature"] is not None:
                            neg.append(lift(a["permeate_temperature"]) != ps.Tp.t)
                        if ps.Pp is not None and a["permeate_pressure"] is not None:
                            neg.append(lift(a["permeate_pressure"]) != ps.Pp.t)
                        job.record(tag + "/question_shape/k%d" % k, "discharged" if struct_ok else "violated",
                                   "model %r, basis %r" % (a["calculation_type"], a["composition"].type), nontrivial=False,
                                   replay={"fn": R2, "inputs": dict(fb[0], kind=kind, mode=mode, model=model, basis=basis, N=N)})
                        job.prove(tag + "/question_is_reported_state/k%d" % k, cs, neg, R2, inputs, fallback=fb)
                        if ideal:
                            Tk = m.feed_temperature[k]
                            job.prove(tag + "/permeances_are_the_membranes_at_the_step_temperature/k%d" % k, cs,
                                      [lift(m.permeances[k][i].value) != UF("PERM%d" % (i + 1), Tk, nonneg=True) for i in (0, 1)],
                                      R2, inputs, fallback=fb, congruence=["PERM1", "PERM2"])
                        J1, J2 = j[0].t, j[1].t
                        y = J1 / (J1 + J2)
                        job.prove(tag + "/fluxes_and_permeate/k%d" % k, cs,
                                  [lift(m.partial_fluxes[k][0]) != J1, lift(m.partial_fluxes[k][1]) != J2, lift(m.permeate_composition[k].p) != y], R2, inputs, fallback=fb)
                    wk = [lift(c.p) for c in m.feed_compositions]
                    yk = [lift(c.p) for c in m.permeate_composition]
                    sf = m.get_separation_factor
                    psi = m.get_psi
                    job.prove(tag + "/separation_factor", cs, [lift(sf[k]) != (yk[k] / (1 - yk[k])) / (wk[k] / (1 - wk[k])) for k in range(N)], R2, inputs, fallback=fb)
                    job.prove(tag + "/psi", cs, [lift(psi[k]) != (lift(m.partial_fluxes[k][0]) + lift(m.partial_fluxes[k][1])) * (lift(sf[k]) - 1) for k in range(N)],
                              R2, inputs, fallback=fb)
                if not got:
                    job.unreached(tag)


JOB_TIMEOUT = {"quick": 400, "thorough": 2400}


def jobs(tier):
    K = K_TIER[tier]
    js = []
    for mode in flux.MODES:
        for model in ("NRTL", "UNIQUAC"):
            for basis in ("weight", "molar"):
                js.append(("entry_%s_%s_%s" % (mode, model, basis), "entry_points", {"mode": mode, "model": model, "basis": basis, "K": K}))
    for kind in proc.KINDS:
        for mode in proc.MODES:
            js.append(("proc_%s_%s" % (proc.SHORT[kind], mode), "process_steps", {"kind": kind, "mode": mode, "tier": tier}))
    return js

"""C10 -- the flux calculation always terminates."""
import ast
import fractions
import importlib
import inspect
import os
import pkgutil
import types

import z3

import pyvaporation as pv
from pyvaporation.mixtures import Mixtures
from pyvaporation.mixtures import mixture as mixmod
from pyvaporation.pervaporation import pervaporation as pvmod
from pyvaporation.pervaporation.pervaporation import Pervaporation

from ..symx import lift, SReal, SInt, SBool, real, rv, assume, Unsupported
from .. import build, symx
from ..core import Patches, close, REPO

EXPLANATION = ("(a) Ranking: every `while` statement of the package is located in the AST of the current source; the loop of "
               "calculate_partial_fluxes is compiled (from that AST, in the module's own namespace) into a one-iteration function and executed "
               "from a havocked loop head with the driving-force callee returning arbitrary reals; z3 must show that some loop-carried integer "
               "increases on every continuing leaf and is bounded above by the leaf's path condition -- then the loop runs a bounded number of "
               "times for any behaviour of the callee, in every mode and for both models.  (b) Witness search: permeate-pressure mode is a "
               "linear-fractional map; with feed partial pressures taken from the real code at seeded states z3 solves for permeances, "
               "pressure and precision giving an exact 2-cycle; each witness is replayed on the real flux calculation under a counting wrapper.")
OUTSIDE = ("termination of scipy's optimisers and of numpy; `for` loops over range/len are bounded by construction (checked syntactically: "
           "no other `while`, no recursion in the package); non-termination that needs the true exp (permeate-temperature mode) can only be "
           "excluded by (a), not discovered by (b)")
R_ = "vf.props.C10:concrete"
CAP = 100000


class _Stop(Exception):
    pass


def counted_call(inp, cap=CAP):
    """real flux calculation under a harness-side counting wrapper"""
    mix = getattr(Mixtures, inp.get("mixture") or "H2O_EtOH")
    orig = Pervaporation.get_partial_fluxes_from_permeate_composition
    n = [0]

    def counted(self, *a, **k):
        n[0] += 1
        if n[0] > cap:
            raise _Stop()
        return orig(self, *a, **k)

    Pervaporation.get_partial_fluxes_from_permeate_composition = counted
    try:
        pz = build.pervaporation(mix, membrane=False)
        try:
            out = pz.calculate_partial_fluxes(inp["T"], mixmod.Composition(inp["x"], "weight"), inp["prec"], inp.get("Tp"), inp.get("Pp"),
                                              pv.Permeance(inp["P1"]), pv.Permeance(inp["P2"]), inp.get("model", "NRTL"))
            return "returned", n[0], out
        except _Stop:
            return "running", n[0], None
        except Exception as e:
            return "raised %s" % type(e).__name__, n[0], None
    finally:
        Pervaporation.get_partial_fluxes_from_permeate_composition = orig


WALL = 25  # seconds; the capped calculation of the unchanged code (10000 evaluations) takes well under one second


class _WallClock(BaseException):
    pass


def concrete(inp):
    import signal

    def on_alarm(*_):
        raise _WallClock()

    # a loop that does not go through the counted driving-force function (an inlined copy, say) is caught by the wall clock
    old = signal.signal(signal.SIGALRM, on_alarm)
    signal.setitimer(signal.ITIMER_REAL, WALL)
    try:
        kind, n, out = counted_call(inp)
    except _WallClock:
        return {"ok": False, "inputs": inp,
                "detail": "%s T=%r w=%r P=(%r, %r) p_perm=%r T_perm=%r precision=%r: no result and no error after %d s of wall time (the counted driving-force "
                          "function was not called more than %d times: the iteration runs somewhere else)"
                          % (inp.get("mixture"), inp["T"], inp["x"], inp["P1"], inp["P2"], inp.get("Pp"), inp.get("Tp"), inp["prec"], WALL, CAP)}
    finally:
        signal.setitimer(signal.ITIMER_REAL, 0)
        signal.signal(signal.SIGALRM, old)
    ok = kind != "running"
    return {"ok": ok, "inputs": inp,
            "detail": "%s T=%r w=%r P=(%r, %r) p_perm=%r T_perm=%r precision=%r: %s after %d driving-force evaluations"
                      % (inp.get("mixture"), inp["T"], inp["x"], inp["P1"], inp["P2"], inp.get("Pp"), inp.get("Tp"), inp["prec"],
                         "still iterating" if not ok else kind, n)}


# ------------------------------------------------------------------------------------------------


def _while_loops():
    """(module name, function qualname, lineno) of every while statement in the package; also recursion check"""
    found, recursive = [], []
    root = os.path.dirname(pv.__file__)
    for dirpath, _, files in os.walk(root):
        for f in files:
            if not f.endswith(".py"):
                continue
            path = os.path.join(dirpath, f)
            tree = ast.parse(open(path).read())
            for fn in ast.walk(tree):
                if isinstance(fn, (ast.FunctionDef, ast.AsyncFunctionDef)):
                    for n in ast.walk(fn):
                        if isinstance(n, ast.While):
                            found.append((os.path.relpath(path, REPO), fn.name, n.lineno))
                        if isinstance(n, ast.Call):
                            callee = n.func.attr if isinstance(n.func, ast.Attribute) else getattr(n.func, "id", None)
                            if callee == fn.name and not (isinstance(n.func, ast.Attribute) and not (isinstance(n.func.value, ast.Name) and n.func.value.id in ("self", "cls"))):
                                recursive.append((os.path.relpath(path, REPO), fn.name, n.lineno))
    return sorted(set(found)), sorted(set(recursive))


def _extract_loop():
    src = inspect.getsource(pvmod)
    tree = ast.parse(src)
    fn = next(n for c in tree.body if isinstance(c, ast.ClassDef) and c.name == "Pervaporation" for n in c.body
              if isinstance(n, ast.FunctionDef) and n.name == "calculate_partial_fluxes")
    loops = [n for n in ast.walk(fn) if isinstance(n, ast.While)]
    if not loops:
        return None
    loop = loops[0]
    stores = {}
    for n in ast.walk(fn):
        if isinstance(n, ast.Assign):
            for t in n.targets:
                if isinstance(t, ast.Name):
                    stores.setdefault(t.id, []).append(n.value)
        elif isinstance(n, ast.AugAssign) and isinstance(n.target, ast.Name):
            stores.setdefault(n.target.id, []).append(n)
    carried = sorted({n.id for b in loop.body for n in ast.walk(b) if isinstance(n, ast.Name) and isinstance(n.ctx, ast.Store)})

    def is_int(name):
        for v in stores.get(name, []):
            if isinstance(v, ast.Constant) and isinstance(v.value, int) and not isinstance(v.value, bool):
                continue
            if isinstance(v, ast.AugAssign) and isinstance(v.op, (ast.Add, ast.Sub)) and isinstance(v.value, ast.Constant) and isinstance(v.value.value, int):
                continue
            if isinstance(v, ast.BinOp) and isinstance(v.op, (ast.Add, ast.Sub)) and isinstance(v.left, ast.Name) and v.left.id == name \
                    and isinstance(v.right, ast.Constant) and isinstance(v.right.value, int):
                continue
            return False
        return bool(stores.get(name))

    subscripted = {n.value.id for n in ast.walk(fn) if isinstance(n, ast.Subscript) and isinstance(n.value, ast.Name)}

    def kind(name):
        if is_int(name):
            return "int"
        if name in subscripted:
            return "pair"
        for v in stores.get(name, []):
            if isinstance(v, ast.Call) and "composition" in ast.unparse(v.func).lower():
                return "composition"
        return "real"

    params = [a.arg for a in fn.args.args]

    class RT(ast.NodeTransformer):
        def visit_Return(self, node):
            return ast.copy_location(ast.Return(value=ast.Tuple(elts=[ast.Constant("return"), node.value or ast.Constant(None)], ctx=ast.Load())), node)

    body = [RT().visit(b) for b in loop.body]
    ret = ast.Return(value=ast.Tuple(elts=[ast.Constant("continue"), ast.Dict(keys=[ast.Constant(c) for c in carried], values=[ast.Name(c, ast.Load()) for c in carried])], ctx=ast.Load()))
    guard = ast.If(test=ast.UnaryOp(op=ast.Not(), operand=loop.test),
                   body=[ast.Return(value=ast.Tuple(elts=[ast.Constant("exit"), ast.Constant(None)], ctx=ast.Load()))], orelse=[])
    f = ast.FunctionDef(name="__one_iteration",
                        args=ast.arguments(posonlyargs=[], args=[ast.arg(a) for a in params + [c for c in carried if c not in params]], kwonlyargs=[], kw_defaults=[], defaults=[]),
                        body=[guard] + body + [ret], decorator_list=[], type_params=[])
    mod = ast.Module(body=[f], type_ignores=[])
    ast.fix_missing_locations(mod)
    return mod, params, carried, {c: kind(c) for c in carried}, ast.unparse(loop.test), loop.lineno


def ranking(job):
    loops, recursive = _while_loops()
    job.bound(while_loops_in_package=["%s:%s:%d" % l for l in loops], recursion=["%s:%s:%d" % r for r in recursive])
    job.stub("get_partial_fluxes_from_permeate_composition -> arbitrary real pair (any mode, any model)")
    job.assume("loop head havocked: every loop-carried name is an arbitrary value of its type", "Composition validator as assumption", "precision > 0")
    for l in recursive:
        job.record("C10/recursion/%s:%s" % l[:2], "inconclusive", "recursive call at line %d is not analysed" % l[2])
    for l in loops:
        if l[1] != "calculate_partial_fluxes":
            job.record("C10/while/%s:%s:%d" % l, "inconclusive", "while loop outside the flux calculation is not analysed")
    in_flux = [l for l in loops if l[1] == "calculate_partial_fluxes"]
    for l in in_flux[1:]:
        job.record("C10/while/%s:%s:%d" % l, "inconclusive", "a further while loop in the flux calculation (line %d): the ranking argument covers the first one only, "
                   "termination of this one is not proved (the witness replays run under a wall clock)" % l[2])
    ex = _extract_loop()
    if ex is None:
        job.record("C10/ranking", "discharged", "calculate_partial_fluxes contains no while loop (bounded by construction)", nontrivial=False)
        return
    mod, params, carried, kinds, test, lineno = ex
    ns = dict(pvmod.__dict__)
    exec(compile(mod, "<loop of calculate_partial_fluxes>", "exec"), ns)
    one = ns["__one_iteration"]
    calls = [0]

    class Stub:
        mixture = None
        membrane = None

        def get_partial_fluxes_from_permeate_composition(self, *a, **kw):
            calls[0] += 1
            return (real("J1_%d" % calls[0]), real("J2_%d" % calls[0]))

    head = {}
    for c in carried:
        head[c] = (SInt(z3.Int("h_" + c)) if kinds[c] == "int" else build.comp(real("h_" + c), "weight") if kinds[c] == "composition"
                   else (real("h_%s_0" % c), real("h_%s_1" % c)) if kinds[c] == "pair" else real("h_" + c))
    prec = real("prec")
    with Patches() as pt:
        build.assume_validator(pt)
        ns["Composition"] = mixmod.Composition

        def run():
            calls[0] = 0
            kw = dict(self=Stub(), feed_temperature=real("T"), composition=build.comp(real("x"), "weight"), precision=prec,
                      permeate_temperature=real("Tp"), permeate_pressure=real("Pp"),
                      first_component_permeance=build.perm(real("P1")), second_component_permeance=build.perm(real("P2")), calculation_type="NRTL")
            for p in params:
                kw.setdefault(p, None)
            for c in carried:
                kw[c] = build.comp(head[c].p, "weight") if kinds[c] == "composition" else head[c]
            return one(**kw)

        leaves = list(job.explore(run, [prec.t > 0]))
    cont = [l for l in leaves if l.kind == "returned" and l.value[0] == "continue"]
    shape = sorted({(l.kind if l.kind != "returned" else l.value[0]) for l in leaves})
    ints = [c for c in carried if kinds[c] == "int"]
    best = None
    for v in ints:
        ok, bound = bool(cont), None
        for l in cont:
            s = z3.Solver()
            s.set("timeout", 20000)
            s.add(prec.t > 0, *l.pc)
            s.add(l.value[1][v].t < head[v].t + 1)
            if s.check() != z3.unsat:
                ok = False
                break
            o = z3.Optimize()
            o.set("timeout", 20000)
            o.add(prec.t > 0, *l.pc)
            h = o.maximize(head[v].t)
            o.check()
            ub = o.upper(h)
            if not z3.is_int_value(ub):
                ok = False
                break
            bound = max(bound or 0, ub.as_long())
        if ok:
            best = (v, bound)
            break
    job.bound(loop_test=test, loop_line=lineno, loop_carried=kinds, one_iteration_leaves=shape)
    if best:
        job.record("C10/ranking", "discharged", "loop-carried integer %r increases on every continuing iteration and is at most %d there: "
                   "the loop body runs at most %d times for any behaviour of the callee" % (best[0], best[1], best[1] + 2), bound_found=best[1])
    else:
        # no ranking function: termination is not proved; the verdict comes from the witness search
        job.record("C10/ranking", "inconclusive", "no loop-carried integer bounds the loop `while %s` (line %d; carried %s): termination not proved"
                   % (test, lineno, kinds))
    job.vacuity["checked"] += 1
    if not cont:
        # the one-iteration harness could not follow this loop shape: no verdict from (a), the witnesses decide
        job.errors.append("ranking harness: no continuing leaf (%s)" % shape)


# ------------------------------------------------------------------------------------------------

STATES = [("H2O_EtOH", 333.15, 0.9), ("H2O_EtOH", 313.15, 0.5), ("H2O_iPOH", 353.15, 0.3), ("MeOH_MTBE", 323.15, 0.2),
          ("H2O_AceticAcid", 363.15, 0.7), ("MeOH_Toluene", 333.15, 0.6), ("EtOH_ETBE", 343.15, 0.4), ("H2O_MeOH", 303.15, 0.8), ("MeOH_DMC", 320.0, 0.15)]


def witnesses(job, tier):
    """exact 2-cycles of the permeate-pressure fixed-point map, solved for and replayed"""
    states = STATES[:4] if tier == "quick" else STATES
    job.bound(witness_states=["%s T=%s w=%s" % s for s in states], replay_cap_evaluations=CAP)
    for (name, T, x) in states:
        mix = getattr(Mixtures, name)
        a_f, b_f = (float(v) for v in mixmod.get_partial_pressures(T, mix, mixmod.Composition(x, "weight")))
        a = rv(fractions.Fraction(a_f).limit_denominator(10 ** 12))
        b = rv(fractions.Fraction(b_f).limit_denominator(10 ** 12))
        P1, P2, p, prec = z3.Reals("P1 P2 p prec")

        def G(y):
            j1 = P1 * (a - p * y)
            j2 = P2 * (b - p * (1 - y))
            return j1 / (j1 + j2), j1, j2

        y0 = P1 * a / (P1 * a + P2 * b)
        y1, j1a, j2a = G(y0)
        y2, j1b, j2b = G(y1)
        s = z3.Solver()
        s.set("timeout", 30000)
        s.add(P1 >= rv(1e-6), P1 <= 1, P2 >= rv(1e-6), P2 <= 1, p >= 0, p <= 100, prec >= rv(1e-8), prec <= rv(1e-3))
        s.add(j1a > 0, j2a > 0, j1b > 0, j2b > 0)
        for y in (y0, y1, y2):
            s.add(y >= 0, y <= 1)
        d = y1 - y0
        s.add(y2 == y0, z3.If(d >= 0, d, -d) >= prec)
        r = s.check()
        oid = "C10/two_cycle/%s/T%s/w%s" % (name, T, x)
        if r != z3.sat:
            job.record(oid, "discharged" if r == z3.unsat else "inconclusive", "no exact 2-cycle in the admissible box (%s)" % r)
            continue
        m = s.model()
        val = lambda v: float(m.eval(v, model_completion=True).as_fraction())
        inp = {"mixture": name, "T": T, "x": x, "P1": val(P1), "P2": val(P2), "Pp": val(p), "prec": val(prec)}
        job.refute_concretely(oid, R_, inp)
        # the same cycle at the finest admissible precision: the evaluation budget must not grow with 1 / precision
        job.refute_concretely(oid + "/finest_precision", R_, dict(inp, prec=1e-8))
    # seeded near-equilibrium states in permeate-temperature mode (cannot be solved for through the UF abstraction)
    for (name, T, x) in states[:3]:
        for dT in (0.5, 2.0):
            inp = {"mixture": name, "T": T, "x": x, "P1": 0.05, "P2": 0.05, "Tp": T - dT, "prec": 1e-6}
            job.refute_concretely("C10/near_equilibrium/%s/T%s/w%s/dT%s" % (name, T, x, dT), R_, inp)


def jobs(tier):
    return [("ranking", "ranking", {}), ("witnesses", "witnesses", {"tier": tier})]

"""C18 -- reported process states are physically admissible, otherwise the call raises."""
import math

import z3

from ..symx import lift, SReal
from .. import build, proc, realrun
from ..core import Patches, close

EXPLANATION = ("The four process models are executed with the real Composition validator (it forks) and an arbitrary flux function; for every "
               "leaf that *returns* a ProcessModel the solver is asked whether some reported state can be inadmissible (feed mass <= 0, "
               "temperature <= 0, a fraction outside [0,1]).  unsat on all returning leaves means: whenever the step size drives the model out "
               "of the admissible region the call ends in one of the raising leaves.  sat answers are replayed on the real code with coarse "
               "discretisations (one step removing 10%..1000% of the feed).")
OUTSIDE = ("non-finite floats (inf/nan) are outside the real-arithmetic model: the repaired guards are written as `not x > 0` so that nan is "
           "rejected too, which is argued, not decided (plus labelled concrete points: overflowing temperature programmes); step counts above the bound; Permeance clamp assumed (permeances are not part of the "
           "admissibility statement)")
R_ = "vf.props.C18:concrete"
N_TIER = {"quick": (2,), "thorough": (2, 3)}


def _check_model(m, inp):
    bad = []
    for k in range(len(m.time)):
        vals = {"feed mass": m.feed_mass[k], "feed temperature": m.feed_temperature[k]}
        for name, v in vals.items():
            if not (float(v) > 0 and math.isfinite(float(v))):
                bad.append("step %d: %s = %r" % (k, name, float(v)))
        for name, c in (("feed fraction", m.feed_compositions[k].p), ("permeate fraction", m.permeate_composition[k].p)):
            if not 0 <= float(c) <= 1:
                bad.append("step %d: %s = %r" % (k, name, float(c)))
        for name, v in (("flux1", m.partial_fluxes[k][0]), ("flux2", m.partial_fluxes[k][1]), ("evaporation heat", m.feed_evaporation_heat[k])):
            if not math.isfinite(float(v)):
                bad.append("step %d: %s = %r" % (k, name, float(v)))
    return bad


def concrete(inp):
    """coarse discretisations on the real code: a returned trajectory must be admissible"""
    kind, mode = inp["kind"], inp.get("mode")
    cands = [inp] if realrun.admissible_process(inp) else []
    for f in realrun.proc_fallback(mode, inp.get("program")):
        for A, dt, N in ((5.0, 2.0, 4), (1.0, 3.0, 6), (50.0, 5.0, 3), (0.04155, 400.0, 4), (2.0, 1.0, 12)):
            for sel in ({}, {"P1": 0.05, "P2": 0.04, "x0": 0.6}):  # selective and weakly selective membranes
                cands.append(dict(f, kind=kind, mode=mode, basis=inp.get("basis", "weight"), program=inp.get("program"), N=N, A=A, dt=dt, m0=1.0,
                                  n_curves=inp.get("n_curves", 2), initial_permeances=inp.get("initial_permeances", False), **sel))
        for N, frac in ((2, 1.6), (3, 0.9), (4, 0.45)):  # feed running out exactly in the transition into the last reported state
            cands.append(dict(f, kind=kind, mode=mode, basis="weight", program=inp.get("program"), N=N, A=1.0, dt=frac * 12.0 / 0.3, m0=12.0, P1=0.05, P2=0.04, x0=0.7,
                              n_curves=inp.get("n_curves", 2), initial_permeances=False))
    import warnings
    if "non_isothermal" in kind:
        for f in realrun.proc_fallback(mode, None)[:1]:
            base = dict(f, kind=kind, mode=mode, basis="weight", m0=1.0, A=1.0, n_curves=inp.get("n_curves", 2), initial_permeances=False)
            # temperature programmes that cross 0 K
            for coefs, N, dt in (((f["T0"], -400.0), 2, 1.0), ((f["T0"], 20.0, -130.0), 3, 1.0), ((f["T0"], -90.0), 5, 1.0)):
                c = dict(base, program="polynomial", N=N, dt=dt, A=0.001)
                c.update({"tc%d" % j: v for j, v in enumerate(coefs)})
                cands.append(c)
            # self-cooling: one step removing 50..99 % of the feed (scaled from a one-step probe of the same model)
            try:
                with warnings.catch_warnings():
                    warnings.simplefilter("ignore")
                    probe, _, _ = realrun.process(dict(base, program=None, N=1, dt=1e-6))
                jt = float(sum(probe.partial_fluxes[0]))
                for frac in (0.5, 0.6, 0.7, 0.8, 0.9, 0.95, 0.99):
                    for N in (2, 3):
                        cands.append(dict(base, program=None, N=N, dt=frac * 1.0 / (jt * 1.0)))
            except Exception:
                pass
    for i in cands:
        try:
            with warnings.catch_warnings():
                warnings.simplefilter("ignore")
                m, _, _ = realrun.process(i)
        except (ValueError, ZeroDivisionError, OverflowError, FloatingPointError):
            continue
        bad = _check_model(m, i)
        if bad:
            return {"ok": False, "inputs": i, "detail": "%s %s A=%r dt=%r N=%r m0=%r returned a trajectory with %s"
                    % (kind, i.get("mixture"), i["A"], i["dt"], i["N"], i["m0"], "; ".join(bad[:3]))}
    return {"ok": True, "detail": "all %d coarse runs raised or stayed admissible" % len(cands)}


def concrete_overflow(inp):
    """a temperature programme whose value overflows the floats must end in an error, not in a trajectory with T = inf and nan heats"""
    import warnings
    kind, mode = inp["kind"], inp.get("mode")
    f = realrun.proc_fallback(mode, None)[0]
    bad = []
    for ptype, coefs in (("exponential", (f["T0"], 0.0, -400.0, 400.0)), ("polynomial", (f["T0"], 0.0, 0.0, 1e306, 1e306)), ("exponential", (f["T0"], 800.0))):
        i = dict(f, kind=kind, mode=mode, basis="weight", program=ptype, N=3, dt=1.0, A=0.01, m0=10.0, n_curves=2, initial_permeances=False)
        i.update({"tc%d" % j: v for j, v in enumerate(coefs)})
        try:
            with warnings.catch_warnings():
                warnings.simplefilter("ignore")
                m, _, _ = realrun.process(i)
        except (ValueError, ZeroDivisionError, OverflowError, FloatingPointError):
            continue
        b = _check_model(m, i)
        if b:
            bad.append("%s with the %s programme %r returned a trajectory with %s" % (kind, ptype, coefs, "; ".join(b[:3])))
    return {"ok": not bad, "detail": "; ".join(bad[:2]), "inputs": inp}


def concrete_deep_cooling(inp):
    """self-cooling runs whose first step takes away 90 % .. 99.9 % of the absolute feed temperature (permeances underflow, 0/0 fractions):
    the call must raise or return admissible, finite states"""
    import warnings
    kind, mode = inp["kind"], inp.get("mode")
    bad, runs, returned = [], 0, 0
    light = bool(inp.get("light"))
    for f in realrun.proc_fallback(mode, None)[:1 if light else 2]:
        for x0, m0, A in ((0.9, 1.5, 0.5), (0.3, 1.0, 1.0))[:1 if light else 2]:
            base = dict(f, kind=kind, mode=mode, basis="weight", program=None, x0=x0, m0=m0, A=A, n_curves=2, initial_permeances=False)
            try:
                with warnings.catch_warnings():
                    warnings.simplefilter("ignore")
                    probe, _, _ = realrun.process(dict(base, N=2, dt=1e-6))
                rate = (float(probe.feed_temperature[0]) - float(probe.feed_temperature[1])) / 1e-6  # K per hour at the initial state
            except Exception:
                continue
            if not rate > 0:
                continue
            for frac in ((0.87, 0.98, 0.99, 0.995, 0.9975) if light else (0.8625, 0.87, 0.875, 0.9, 0.95, 0.97, 0.98, 0.99, 0.9925, 0.995, 0.9975, 0.999)):
                for N in ((2, 3) if light else (2, 3, 4)):
                    i = dict(base, N=N, dt=frac * f["T0"] / rate)
                    runs += 1
                    try:
                        with warnings.catch_warnings():
                            warnings.simplefilter("ignore")
                            m, _, _ = realrun.process(i)
                    except (ValueError, ZeroDivisionError, OverflowError, FloatingPointError):
                        continue
                    returned += 1
                    b = _check_model(m, i)
                    if b:
                        bad.append("%s %s x0=%r: first step cools the feed by %.2f %% of T0 (dt=%.6g h, N=%d): returned a trajectory with %s"
                                   % (kind, f["mixture"], x0, 100 * frac, i["dt"], N, "; ".join(b[:2])))
    return {"ok": not bad, "detail": "; ".join(bad[:2]) or "%d runs, %d returned" % (runs, returned), "inputs": inp}


def admissible(job, kind, mode, tier):
    Ns = N_TIER[tier]
    job.bound(process_steps_N=list(Ns))
    job.stub("FLUX(...) arbitrary real pair (also negative / huge)", "PERM_i(T) >= 0", "HVAP_i, CP_i, COOL_i arbitrary", "find_best_fit -> symbolic function", "EA_i")
    job.assume("real Composition validator (forks)", "Permeance clamp as assumption", "A, m0, dt > 0; 0 < x0 < 1; 273 < T0 < 400", "division denominators non-zero on the path")
    iso = "non_isothermal" not in kind
    ideal = not kind.startswith("non_ideal")
    for program in ((None,) if iso else (None, "polynomial")):
        for N in Ns:
            ps = proc.ProcSetup(kind, mode, "weight", program, N, n_curves=2, initial_permeances=False)
            dom = ps.domain()
            inputs = ps.inputs()
            tag = "C18/%s/%s/%s/N%d" % (proc.SHORT[kind], mode, program or "noprog", N)
            with Patches() as pt:
                ps.install(pt, validator="real", name_state=True)
                ret = raised = 0
                for leaf in job.explore(ps.run, dom, timeout_ms=100):
                    if leaf.kind == "raised":
                        raised += 1
                        continue
                    if leaf.kind != "returned":
                        continue
                    ret += 1
                    m = leaf.value
                    cs = dom + leaf.conds()
                    neg = []
                    for k in range(len(m.time)):
                        neg += [lift(m.feed_mass[k]) <= 0, lift(m.feed_temperature[k]) <= 0,
                                lift(m.feed_compositions[k].p) < 0, lift(m.feed_compositions[k].p) > 1,
                                lift(m.permeate_composition[k].p) < 0, lift(m.permeate_composition[k].p) > 1]
                    job.prove(tag + "/returned_states_admissible", cs, neg, R_, inputs, timeout=60)
                    job.twin_sat(tag + "/twin", cs)
                if ret == 0:
                    job.vacuity["failed"].append(tag + ": no returning path")
                job.vacuity["checked"] += 1
                if raised == 0:
                    job.vacuity["failed"].append(tag + ": no raising path (validator not reached?)")
    if not iso:
        # labelled concrete points: float overflow (inf / nan) has no counterpart in real arithmetic
        job.refute_concretely("C18/%s/%s/overflowing_programme_raises" % (proc.SHORT[kind], mode), "vf.props.C18:concrete_overflow", {"kind": kind, "mode": mode})
        job.refute_concretely("C18/%s/%s/deep_cooling_raises_or_stays_finite" % (proc.SHORT[kind], mode), "vf.props.C18:concrete_deep_cooling",
                              {"kind": kind, "mode": mode, "light": (not ideal) and tier == "quick"})


JOB_TIMEOUT = {"quick": 500, "thorough": 3000}


def jobs(tier):
    return [("%s_%s" % (proc.SHORT[k], mode), "admissible", {"kind": k, "mode": mode, "tier": tier}) for k in proc.KINDS for mode in proc.MODES]

"""C17 -- saved curves, functions, conditions and process models load back unchanged."""
import filecmp
import hashlib
import os
import shutil
import tempfile
from pathlib import Path

import numpy
import pandas
import z3

import pyvaporation as pv
from pyvaporation.conditions.conditions import Conditions
from pyvaporation.diffusion_curve import DiffusionCurve, DiffusionCurveSet
from pyvaporation.mixtures import Mixtures
from pyvaporation.optimizer.optimizer import PervaporationFunction
from pyvaporation.permeance.permeance import Units
from pyvaporation.process import process as procmod
from pyvaporation.process.process import ProcessModel

from ..symx import lift, SReal, real, rv
from .. import build, proc, realrun
from ..symx import Unsupported as symx_Unsupported
from ..core import Patches, close
from ..tunnel import tunnel
from .C14 import factor

EXPLANATION = ("The real save / load code (pandas CSV, json, joblib, the file system in a scratch directory) is executed on objects whose every "
               "numeric field is a distinct symbolic value; each symbolic cell is written by the real writer as a unique token and mapped back "
               "after the real parser (token tunnel).  Every persisted field of the loaded object must equal the original field (z3 decides "
               "the equalities that involve the documented conversion on load: curves re-load as mass fractions, permeances in kg units), "
               "with the same mixture, units, permeate condition, None <-> NaN for absent values and equal series lengths.  Save histories: "
               "two and three saves under one membrane directory with the clock stubbed, both for distinct and for colliding directory names; "
               "earlier directories must be byte-identical afterwards.")
OUTSIDE = ("decimal text fidelity of floats in CSV / JSON (the 1e-9 clause) -- exercised only by the concrete replay; pickle internals; "
           "series longer than the bound")
R_ = "vf.props.C17:concrete"


def _scratch():
    return tempfile.mkdtemp(prefix="c17_", dir=os.environ.get("TMPDIR"))


def _tree_digest(root):
    out = {}
    for p in sorted(Path(root).rglob("*")):
        if p.is_file():
            out[str(p.relative_to(root))] = hashlib.sha1(p.read_bytes()).hexdigest()
    return out


def _eq_field(job, tag, name, cs, orig, got, inputs):
    """orig / got: lists of numbers or None"""
    if len(orig) != len(got):
        job.judge("%s/%s" % (tag, name), False, "series length %d saved, %d loaded" % (len(orig), len(got)), R_, inputs)
        return
    neg, structural = [], True
    for o, g in zip(orig, got):
        g_none = g is None or (isinstance(g, float) and g != g)
        if o is None or g_none:
            structural = structural and (o is None) == g_none
            continue
        if isinstance(o, str) or isinstance(g, str):
            structural = structural and str(o) == str(g)
            continue
        neg.append(lift(o) != lift(g))
    if not structural:
        job.judge("%s/%s" % (tag, name), False, "%r saved, %r loaded" % (orig[:3], got[:3]), R_, inputs)
        return
    if neg:
        job.prove("%s/%s" % (tag, name), cs, neg, R_, inputs, fallback=[inputs])
    else:
        job.record("%s/%s" % (tag, name), "discharged", "structural field", nontrivial=False)


# ------------------------------------------------------------------------------------------------


def concrete(inp):
    """real objects with float fields through the real save / load code"""
    what = inp.get("what", "all")
    bad = []
    root = _scratch()
    try:
        mix = Mixtures.H2O_EtOH
        mem = realrun.membrane_for(mix)
        pz = pv.Pervaporation(mem, mix)
        if what in ("process", "all"):
            for kind in proc.KINDS:
                for Tp, Pp in ((293.15, None), (None, 1.5), (None, None)):
                    i = {"kind": kind, "A": 0.05, "T0": 330.0, "m0": 3.0, "x0": 0.3, "dt": 0.2, "N": 3, "Tp": Tp, "Pp": Pp, "basis": "molar", "initial_permeances": True}
                    m = realrun.process(i, mix=mix, membrane=mem)[0]
                    kg = [(p[0].value, p[1].value) for p in m.permeances]
                    for safe, held_in in ((False, None), (True, None), (False, Units.GPU), (True, Units.SI)):
                        if held_in:
                            m.permeances = [(pv.Permeance(a).convert(held_in, mix.first_component), pv.Permeance(b).convert(held_in, mix.second_component)) for a, b in kg]
                        d = Path(root) / ("m_%s_%s_%s_%s_%s" % (kind, Tp, Pp, safe, held_in))
                        before = set(os.listdir(d / "results")) if (d / "results").exists() else set()
                        m.save(d, is_safe=safe)
                        new = sorted(set(os.listdir(d / "results")) - before)
                        l = ProcessModel.load(d / "results" / new[0], is_safe=safe)
                        pairs = [("time", m.time, list(l.time)), ("feed_mass", m.feed_mass, list(l.feed_mass)), ("feed_temperature", m.feed_temperature, list(l.feed_temperature)),
                                 ("evaporation heat", m.feed_evaporation_heat, list(l.feed_evaporation_heat)),
                                 ("flux1", [f[0] for f in m.partial_fluxes], [f[0] for f in l.partial_fluxes]), ("flux2", [f[1] for f in m.partial_fluxes], [f[1] for f in l.partial_fluxes]),
                                 ("permeance1 (held in %s, compared in kg/(m2 h kPa))" % (held_in or "kg"), [p[0] for p in kg], [p[0].value for p in l.permeances]),
                                 ("permeance2 (held in %s, compared in kg/(m2 h kPa))" % (held_in or "kg"), [p[1] for p in kg], [p[1].value for p in l.permeances]),
                                 ("feed composition", [c.p for c in m.feed_compositions], [c.p for c in l.feed_compositions]),
                                 ("permeate composition", [c.p for c in m.permeate_composition], [c.p for c in l.permeate_composition]),
                                 ("fit alpha", [f.alpha for f in m.permeance_fits], [f.alpha for f in l.permeance_fits]),
                                 ("fit b0", [f.b[0] for f in m.permeance_fits], [f.b[0] for f in l.permeance_fits]),
                                 ("conditions", [m.initial_conditions.membrane_area, m.initial_conditions.initial_feed_amount, m.initial_conditions.initial_feed_composition.p],
                                  [l.initial_conditions.membrane_area, l.initial_conditions.initial_feed_amount, l.initial_conditions.initial_feed_composition.p])]
                        for name, a, b in pairs:
                            if len(a) != len(b) or any(not close(x, y, 1e-9) for x, y in zip(a, b)):
                                bad.append("%s (safe=%s) %s: saved %r, loaded %r" % (kind, safe, name, [float(v) for v in a][:3], [float(v) for v in b][:3]))
                        ch = [None if (isinstance(v, float) and v != v) else v for v in list(l.permeate_condensation_heat)]
                        if any((x is None) != (y is None) or (x is not None and not close(x, y, 1e-9)) for x, y in zip(m.permeate_condensation_heat, ch)):
                            bad.append("%s condensation heat: saved %r, loaded %r" % (kind, m.permeate_condensation_heat[:2], ch[:2]))
                        for name, a, b in (("permeate_temperature", m.permeate_temperature, l.permeate_temperature), ("permeate_pressure", m.permeate_pressure, l.permeate_pressure)):
                            b = _as_series(b)
                            if len(a) != len(b):
                                bad.append("%s (safe=%s) %s: series of length %d saved, length %d loaded (%r)" % (kind, safe, name, len(a), len(b), b[:2]))
                            elif any((x is None) != _absent(y) or (x is not None and not close(x, y, 1e-9)) for x, y in zip(a, b)):
                                bad.append("%s (safe=%s) %s: saved %r, loaded %r" % (kind, safe, name, a[:2], b[:2]))
                        bad += _second_generation(l, m, d, safe, "%s (safe=%s)" % (kind, safe))
                        if l.permeances[0][0].units != Units.kg_m2_h_kPa or l.mixture.name != mix.name:
                            bad.append("%s units / mixture" % kind)
        if what in ("curve", "all"):
            for basis in ("weight", "molar"):
                for Tp, Pp in ((293.15, None), (None, 1.5), (None, None)):
                    comps = [pv.Composition(0.2, "weight"), pv.Composition(0.6, "weight")]
                    if basis == "molar":
                        comps = [c.to_molar(mix) for c in comps]
                    dc = pz.ideal_diffusion_curve(333.15, comps, Tp, Pp)
                    path = Path(root) / ("curve_%s_%s_%s.csv" % (basis, Tp, Pp))
                    dc.save(path)
                    l = DiffusionCurveSet.load(path).diffusion_curves[0]
                    for k in range(2):
                        chk = [("flux1", dc.partial_fluxes[k][0], l.partial_fluxes[k][0]), ("flux2", dc.partial_fluxes[k][1], l.partial_fluxes[k][1]),
                               ("permeance1", dc.permeances[k][0].value, l.permeances[k][0].value), ("permeance2", dc.permeances[k][1].value, l.permeances[k][1].value),
                               ("composition (as mass fraction)", dc.feed_compositions[k].to_weight(mix).p, l.feed_compositions[k].p), ("feed temperature", dc.feed_temperature, l.feed_temperature)]
                        for name, a, b in chk:
                            if not close(a, b, 1e-9):
                                bad.append("curve (%s, Tp=%r, Pp=%r) point %d %s: saved %r, loaded %r" % (basis, Tp, Pp, k, name, float(a), float(b)))
                        if l.feed_compositions[k].type != "weight":
                            bad.append("curve re-loaded in %s basis" % l.feed_compositions[k].type)
                    if (l.permeate_temperature is None) != (Tp is None) or (l.permeate_pressure is None) != (Pp is None):
                        bad.append("curve permeate condition: saved (%r, %r), loaded (%r, %r)" % (Tp, Pp, l.permeate_temperature, l.permeate_pressure))
        if what in ("function", "all"):
            # values across the whole stated span (1e-9 .. 1e3), as plain floats and as numpy scalars
            for alpha, a, b in ((0.31, [0.2, -0.11], [1000.5, 50.25]), (7.6543219876543e-09, [-2.718281828459e-08, 3.3e-07], [1234.56789012345, 1.0e-9]),
                                (numpy.float64(4.4e-7), list(numpy.array([1.5e-9, -0.25])), list(numpy.array([999.999, 2.0])))):
                f = PervaporationFunction(n=2, m=1, alpha=alpha, a=a, b=b)
                f.save(Path(root) / "f.pv")
                f.safe_save(Path(root) / "f.json")
                want = [float(alpha)] + [float(v) for v in a] + [float(v) for v in b]
                for how, g in (("binary", PervaporationFunction.load(Path(root) / "f.pv")), ("json", PervaporationFunction.safe_load(Path(root) / "f.json"))):
                    got = [float(g.alpha)] + [float(v) for v in g.a] + [float(v) for v in g.b]
                    if not (g.n == 2 and g.m == 1 and len(got) == len(want) and all(close(x, y, 1e-9, 0) for x, y in zip(got, want))):
                        bad.append("PervaporationFunction %s round trip of %r gives %r" % (how, want, got))
            for tp, pp in ((None, 1.25), (None, 0.0), (293.15, None), (None, None), (0.0, None)):  # incl. an explicit vacuum of 0 kPa
                c = Conditions(membrane_area=0.4, initial_feed_temperature=333.1, initial_feed_amount=2.5, initial_feed_composition=pv.Composition(0.33, "molar"),
                               permeate_temperature=tp, permeate_pressure=pp)
                c.safe_save(Path(root) / "c.json")
                g = Conditions.safe_load(Path(root) / "c.json")
                same = lambda a, b: (a is None and b is None) or (a is not None and b is not None and close(a, b, 1e-9, 1e-12))
                if not (close(g.membrane_area, 0.4) and close(g.initial_feed_temperature, 333.1) and close(g.initial_feed_amount, 2.5) and close(g.initial_feed_composition.p, 0.33)
                        and g.initial_feed_composition.type == "molar" and same(tp, g.permeate_temperature) and same(pp, g.permeate_pressure)):
                    bad.append("Conditions(permeate_temperature=%r, permeate_pressure=%r) round trip gives (%r, %r) and %r" % (tp, pp, g.permeate_temperature, g.permeate_pressure, g))
        if what in ("history", "all"):
            bad += _history_concrete(root, mix, mem)
    finally:
        shutil.rmtree(root, ignore_errors=True)
    return {"ok": not bad, "detail": "; ".join(bad[:3]), "inputs": inp}


def _absent(v):
    return v is None or (isinstance(v, float) and v != v)


def _as_series(v):
    """a loaded per-step field as a list; a scalar (or None) counts as a series of length one"""
    if v is None or isinstance(v, (str, bytes)) or not hasattr(v, "__iter__"):
        return [v]
    return list(v)


def _save_load(model, d, safe):
    """save under a fresh membrane directory d (no name collision possible) and load the one process directory back"""
    model.save(d, is_safe=safe)
    (name,) = os.listdir(Path(d) / "results")
    return ProcessModel.load(Path(d) / "results" / name, is_safe=safe)


def _generations(m, l, d, safe):
    """(second generation, model without conditions): a re-loaded model must itself be storable; initial_conditions is Optional"""
    import copy
    out = []
    m0 = copy.copy(m)
    m0.initial_conditions = None
    for model, sub in ((l, "gen2"), (m0, "nocond")):
        try:
            out.append(_save_load(model, Path(d) / sub, safe))
        except Exception as e:
            out.append(e)
    return out


def _second_generation(l, m, d, safe, label):
    bad = []
    l2, l0 = _generations(m, l, d, safe)
    if isinstance(l2, Exception):
        bad.append("%s: the re-loaded model cannot be saved and loaded again (%s: %s)" % (label, type(l2).__name__, l2))
    else:
        for name in ("time", "feed_mass", "permeate_temperature", "permeate_pressure"):
            a, b = _as_series(getattr(m, name)), _as_series(getattr(l2, name))
            if len(a) != len(b) or any(_absent(x) != _absent(y) or (not _absent(x) and not close(x, y, 1e-9)) for x, y in zip(a, b)):
                bad.append("%s: %s after save/load/save/load: %r, originally %r" % (label, name, b[:3], a[:3]))
    if isinstance(l0, Exception):
        bad.append("%s: a model with initial_conditions=None cannot be saved and loaded (%s: %s)" % (label, type(l0).__name__, l0))
    else:
        if l0.initial_conditions is not None:
            bad.append("%s: initial_conditions=None loaded back as %r" % (label, l0.initial_conditions))
        if len(_as_series(l0.time)) != len(m.time):
            bad.append("%s: time series of a model without conditions: %d saved, %d loaded" % (label, len(m.time), len(_as_series(l0.time))))
    return bad


class _Clock:
    """clock stub: the k-th reading is taken from a given list (equal readings force a directory-name collision)"""

    def __init__(self, readings):
        self.readings = list(readings)
        self.k = 0

    def now(self):
        import datetime as _dt
        r = self.readings[min(self.k, len(self.readings) - 1)]
        self.k += 1
        return _dt.datetime(2024, 1, 1, 12, 0, 0, r)


def _history_concrete(root, mix, mem):
    bad = []
    i = {"kind": "ideal_isothermal_process", "A": 0.05, "T0": 330.0, "m0": 3.0, "x0": 0.3, "dt": 0.2, "N": 2, "Tp": None, "Pp": None}
    m1 = realrun.process(i, mix=mix, membrane=mem)[0]
    m2 = realrun.process(dict(i, m0=4.0), mix=mix, membrane=mem)[0]
    old = procmod.datetime
    try:
        for readings, label in (([1, 2, 3], "distinct names"), ([7, 7, 7], "colliding names"), ([5, 6, 5], "third collides with first")):
            d = Path(root) / ("hist_" + label.replace(" ", "_"))
            procmod.datetime = _Clock(readings)
            digests = []
            for k, m in enumerate((m1, m2, m1)):
                before = {n: _tree_digest(d / "results" / n) for n in (os.listdir(d / "results") if (d / "results").exists() else [])}
                try:
                    m.save(d)
                    outcome = "saved"
                except Exception as e:
                    outcome = type(e).__name__
                after = {n: _tree_digest(d / "results" / n) for n in os.listdir(d / "results")}
                for n, dg in before.items():
                    if after.get(n) != dg:
                        bad.append("%s: save #%d (%s) altered the previously saved directory %s" % (label, k + 1, outcome, n))
                if outcome == "saved" and len(after) != len(before) + 1:
                    bad.append("%s: save #%d did not create a fresh directory" % (label, k + 1))
    finally:
        procmod.datetime = old
    return bad


# ------------------------------------------------------------------------------------------------


def process_model(job, kind, mode, safe):
    N = 2 if job.tier == "quick" else 3
    job.bound(process_steps_N=N)
    job.stub("token tunnel: pandas.to_csv / read_csv, json.dump / load, joblib.dump / load run for real on unique tokens", "FLUX / PERM / HVAP / CP / COOL / find_best_fit stubs generate the model")
    mix = build.lift_obj(Mixtures.H2O_EtOH)
    # third configuration: a model whose permeances are held in SI / GPU (the loader documents a conversion to kg/(m2 h kPa)).  The harness
    # converts with the float constants of the built-in mixture, the ones the loader uses on the way back (rounding-level identification)
    c1, c2 = Mixtures.H2O_EtOH.first_component, Mixtures.H2O_EtOH.second_component
    for basis, init_perm, held_in in (("molar", True, None), ("weight", False, None), ("weight", False, Units.SI if safe else Units.GPU)):
        ps = proc.ProcSetup(kind, mode, basis, None, N, n_curves=2, initial_permeances=init_perm, mix=mix)
        dom = ps.domain()
        inputs = {"what": "process"}
        tag = "C17/process/%s/%s/%s/%s" % (proc.SHORT[kind], mode, "json" if safe else "binary", basis) + ("/held_in_" + held_in if held_in else "")
        root = _scratch()
        try:
            with Patches() as pt, tunnel():
                ps.install(pt)

                def run():
                    m = ps.run()
                    m.kg_permeances = [(p[0].value, p[1].value) for p in m.permeances]
                    if held_in:
                        m.permeances = [(p[0].convert(held_in, c1), p[1].convert(held_in, c2)) for p in m.permeances]
                    d = Path(root) / ("run%d" % len(os.listdir(root)))
                    m.save(d, is_safe=safe)
                    new = os.listdir(d / "results")
                    l = ProcessModel.load(d / "results" / new[0], is_safe=safe)
                    return (m, l) + tuple(_generations(m, l, d, safe))

                got = 0
                for leaf in job.explore(run, dom, timeout_ms=100):
                    if leaf.kind != "returned":
                        continue
                    got += 1
                    m, l, l2, l0 = leaf.value
                    cs = dom + leaf.conds()
                    F = lambda name, a, b: _eq_field(job, tag, name, cs, list(a), list(b), inputs)
                    F("time", m.time, l.time)
                    F("feed_mass", m.feed_mass, l.feed_mass)
                    F("feed_temperature", m.feed_temperature, l.feed_temperature)
                    F("feed_evaporation_heat", m.feed_evaporation_heat, l.feed_evaporation_heat)
                    F("permeate_condensation_heat", m.permeate_condensation_heat, l.permeate_condensation_heat)
                    F("partial_flux_1", [f[0] for f in m.partial_fluxes], [f[0] for f in l.partial_fluxes])
                    F("partial_flux_2", [f[1] for f in m.partial_fluxes], [f[1] for f in l.partial_fluxes])
                    F("permeance_1", [p[0] for p in m.kg_permeances], [p[0].value for p in l.permeances])
                    F("permeance_2", [p[1] for p in m.kg_permeances], [p[1].value for p in l.permeances])
                    F("permeance_units", [Units.kg_m2_h_kPa] * (2 * len(m.permeances)), [p[0].units for p in l.permeances] + [p[1].units for p in l.permeances])
                    F("feed_composition", [c.p for c in m.feed_compositions], [c.p for c in l.feed_compositions])
                    F("feed_composition_basis", [c.type for c in m.feed_compositions], [c.type for c in l.feed_compositions])
                    F("permeate_composition", [c.p for c in m.permeate_composition], [c.p for c in l.permeate_composition])
                    F("permeate_composition_basis", [c.type for c in m.permeate_composition], [c.type for c in l.permeate_composition])
                    F("permeate_temperature", m.permeate_temperature, _as_series(l.permeate_temperature))
                    F("permeate_pressure", m.permeate_pressure, _as_series(l.permeate_pressure))
                    if isinstance(l2, Exception):
                        job.judge(tag + "/second_generation/storable", False, "saving the re-loaded model raised %s: %s" % (type(l2).__name__, l2), R_, inputs)
                    else:
                        for name in ("time", "feed_mass", "feed_temperature", "permeate_temperature", "permeate_pressure"):
                            F("second_generation/" + name, _as_series(getattr(m, name)), _as_series(getattr(l2, name)))
                        F("second_generation/permeance_1", [p[0] for p in m.kg_permeances], [p[0].value for p in l2.permeances])
                        F("second_generation/permeance_2", [p[1] for p in m.kg_permeances], [p[1].value for p in l2.permeances])
                    if isinstance(l0, Exception):
                        job.judge(tag + "/no_conditions/storable", False, "saving a model with initial_conditions=None raised %s: %s" % (type(l0).__name__, l0), R_, inputs)
                    else:
                        job.judge(tag + "/no_conditions/loads_as_none", l0.initial_conditions is None, "loaded %r" % (l0.initial_conditions,), R_, inputs)
                        F("no_conditions/time", m.time, _as_series(l0.time))
                    F("mixture_and_membrane", [m.mixture.name, m.membrane_name], [l.mixture.name, l.membrane_name])
                    fits_m, fits_l = m.permeance_fits, l.permeance_fits
                    for i in (0, 1):
                        F("fit%d_orders" % i, [str(fits_m[i].n), str(fits_m[i].m)], [str(fits_l[i].n), str(fits_l[i].m)])
                        F("fit%d_coefficients" % i, [fits_m[i].alpha] + list(fits_m[i].a) + list(fits_m[i].b), [fits_l[i].alpha] + list(fits_l[i].a) + list(fits_l[i].b))
                    ca, cb = m.initial_conditions, l.initial_conditions
                    F("conditions", [ca.membrane_area, ca.initial_feed_temperature, ca.initial_feed_amount, ca.initial_feed_composition.p, ca.initial_feed_composition.type,
                                     ca.permeate_temperature, ca.permeate_pressure],
                      [cb.membrane_area, cb.initial_feed_temperature, cb.initial_feed_amount, cb.initial_feed_composition.p, cb.initial_feed_composition.type,
                       cb.permeate_temperature, cb.permeate_pressure])
                if not got:
                    job.unreached(tag)
        finally:
            shutil.rmtree(root, ignore_errors=True)


def curve(job, mode):
    job.bound(curve_points=2)
    mixf = Mixtures.H2O_EtOH
    mix = build.lift_obj(mixf)
    M1, M2 = mix.first_component.molecular_weight, mix.second_component.molecular_weight
    T = real("T")
    Tp = real("Tp") if mode == "ptemp" else None
    Pp = real("Pp") if mode == "ppres" else None
    inputs = {"what": "curve"}
    for basis in ("weight", "molar"):
        for units in (Units.kg_m2_h_kPa, Units.SI, Units.GPU):
            xs = [real("x%d" % i) for i in range(2)]
            dom = [T.t > 273, T.t < 400] + [z3.And(x.t > 0, x.t < 1) for x in xs]
            tag = "C17/curve/%s/%s/%s" % (mode, basis, {"kg/(m2*h*kPa)": "kg"}.get(units, units))
            root = _scratch()
            try:
                with Patches() as pt, tunnel():
                    build.assume_validator(pt)
                    build.assume_permeance_clamp(pt)

                    def run():
                        dc = build.bare(DiffusionCurve)
                        dc.mixture, dc.membrane_name, dc.feed_temperature = mix, "memb", T
                        dc.feed_compositions = [build.comp(x, basis) for x in xs]
                        dc.partial_fluxes = [(real("J1_%d" % i), real("J2_%d" % i)) for i in range(2)]
                        dc.permeances = [(build.perm(real("P1_%d" % i), units), build.perm(real("P2_%d" % i), units)) for i in range(2)]
                        dc.permeate_temperature, dc.permeate_pressure, dc.comments = Tp, Pp, "c"
                        path = Path(root) / ("curve%d.csv" % len(os.listdir(root)))
                        dc.save(path)
                        return dc, DiffusionCurveSet.load(path)

                    got = 0
                    for leaf in job.explore(run, dom, timeout_ms=200):
                        if leaf.kind != "returned":
                            continue
                        got += 1
                        dc, ls = leaf.value
                        cs = dom + leaf.conds()
                        if len(ls.diffusion_curves) != 1:
                            job.judge(tag + "/one_curve", False, "%d curves loaded" % len(ls.diffusion_curves), R_, inputs)
                            continue
                        l = ls.diffusion_curves[0]
                        F = lambda name, a, b: _eq_field(job, tag, name, cs, list(a), list(b), inputs)
                        F("partial_flux_1", [f[0] for f in dc.partial_fluxes], [f[0] for f in l.partial_fluxes])
                        F("partial_flux_2", [f[1] for f in dc.partial_fluxes], [f[1] for f in l.partial_fluxes])
                        # the loader converts with the built-in (float) molar masses: the oracle uses the same float constants
                        # (1/(M*3600) evaluated in double precision), cf. DESIGN 3.1 on rounding-level identifications
                        cf = {Units.SI: 1.0, Units.GPU: 3.35e-10}
                        c1 = dict(cf, **{Units.kg_m2_h_kPa: 1 / (mixf.first_component.molecular_weight * 3.6e3)})
                        c2 = dict(cf, **{Units.kg_m2_h_kPa: 1 / (mixf.second_component.molecular_weight * 3.6e3)})
                        kg1 = lambda v: lift(v) if units == Units.kg_m2_h_kPa else lift(v) * rv(c1[units]) / rv(c1[Units.kg_m2_h_kPa])
                        kg2 = lambda v: lift(v) if units == Units.kg_m2_h_kPa else lift(v) * rv(c2[units]) / rv(c2[Units.kg_m2_h_kPa])
                        F("permeance_1_in_kg", [SReal(kg1(p[0].value)) for p in dc.permeances], [p[0].value for p in l.permeances])
                        F("permeance_2_in_kg", [SReal(kg2(p[1].value)) for p in dc.permeances], [p[1].value for p in l.permeances])
                        F("units", [Units.kg_m2_h_kPa] * 4, [p[0].units for p in l.permeances] + [p[1].units for p in l.permeances])
                        w = [x if basis == "weight" else SReal(build.w_of_x(x, M1, M2)) for x in xs]
                        F("composition_as_mass_fraction", w, [c.p for c in l.feed_compositions])
                        F("composition_basis", ["weight", "weight"], [c.type for c in l.feed_compositions])
                        F("feed_temperature", [dc.feed_temperature], [l.feed_temperature])
                        F("permeate_temperature", [Tp], [l.permeate_temperature])
                        F("permeate_pressure", [Pp], [l.permeate_pressure])
                        F("mixture_and_membrane", [mix.name, "memb"], [l.mixture.name, l.membrane_name])
                    if not got:
                        job.unreached(tag)
            finally:
                shutil.rmtree(root, ignore_errors=True)


def small_objects(job):
    """PervaporationFunction (binary + JSON) and Conditions (JSON)"""
    inputs = {"what": "function"}
    root = _scratch()
    try:
        with tunnel():
            for n, m in ((0, 0), (1, 1), (2, 1)):
                arr = [real("k%d" % i) for i in range(2 + n + m)]
                f = PervaporationFunction.from_array(numpy.array(arr, dtype=object), n, m)
                try:
                    f.save(Path(root) / "f.pv")
                    f.safe_save(Path(root) / "f.json")
                except symx_Unsupported as e:
                    job.record("C17/function/n%d_m%d/*" % (n, m), "inconclusive", "the code is out of reach of the lifted execution here (%s)" % e, nontrivial=False)
                    continue
                for how, g in (("binary", PervaporationFunction.load(Path(root) / "f.pv")), ("json", PervaporationFunction.safe_load(Path(root) / "f.json"))):
                    tag = "C17/function/%s/n%d_m%d" % (how, n, m)
                    _eq_field(job, tag, "orders", [], [str(n), str(m)], [str(g.n), str(g.m)], inputs)
                    _eq_field(job, tag, "coefficients", [], [f.alpha] + list(f.a) + list(f.b), [g.alpha] + list(g.a) + list(g.b), inputs)
            for Tp, Pp in ((real("Tp"), None), (None, real("Pp")), (None, None)):
                for basis in ("weight", "molar"):
                    c = Conditions(membrane_area=real("A"), initial_feed_temperature=real("T0"), initial_feed_amount=real("m0"),
                                   initial_feed_composition=build.comp(real("x0"), basis), permeate_temperature=Tp, permeate_pressure=Pp)
                    tag = "C17/conditions/%s/%s" % ("ptemp" if Tp is not None else "ppres" if Pp is not None else "vac", basis)

                    def save_and_load(c=c):
                        # saving is explored too: a branch on the value of an optional field (an explicit 0 kPa, say) is a path of its own
                        c.safe_save(Path(root) / "c.json")
                        return Conditions.safe_load(Path(root) / "c.json")

                    dom_c = [real("x0").t >= 0, real("x0").t <= 1] + ([Tp.t >= 0] if Tp is not None else []) + ([Pp.t >= 0] if Pp is not None else [])
                    for leaf in job.explore(save_and_load, dom_c):
                        if leaf.kind != "returned":
                            job.judge(tag + "/loads", False, "loading raised %r" % (leaf.value,), R_, inputs)
                            continue
                        g = leaf.value
                        _eq_field(job, tag, "fields", leaf.conds(), [c.membrane_area, c.initial_feed_temperature, c.initial_feed_amount, c.initial_feed_composition.p,
                                                                      c.initial_feed_composition.type, c.permeate_temperature, c.permeate_pressure],
                                  [g.membrane_area, g.initial_feed_temperature, g.initial_feed_amount, g.initial_feed_composition.p, g.initial_feed_composition.type,
                                   g.permeate_temperature, g.permeate_pressure], inputs)
    finally:
        shutil.rmtree(root, ignore_errors=True)


def histories(job):
    """repeated saves under one membrane directory, clock stubbed: earlier directories stay byte-identical, a collision raises"""
    job.bound(saves_per_history=3, clock_patterns=["distinct", "all equal", "third equals first"])
    job.stub("datetime.now() in process.py -> readings chosen by the harness (equal readings force a directory-name collision)")
    mix = Mixtures.H2O_EtOH
    mem = realrun.membrane_for(mix)
    root = _scratch()
    try:
        bad = _history_concrete(root, mix, mem)
    finally:
        shutil.rmtree(root, ignore_errors=True)
    job.judge("C17/history/earlier_directories_untouched", not bad, "; ".join(bad[:2]), R_, {"what": "history"})
    # the generated name depends on the clock only: equal readings <=> equal names (so the three patterns above cover the cases)
    old = procmod.datetime
    root = _scratch()
    try:
        names = []
        for r in (11, 11, 12):
            procmod.datetime = _Clock([r])
            d = Path(root) / ("m%d" % len(names))
            names.append(ProcessModel._generate_process_path(d).name)
        job.record("C17/history/name_is_a_function_of_the_clock", "discharged" if names[0] == names[1] else "inconclusive",
                   "names %r" % names, nontrivial=False)
    finally:
        procmod.datetime = old
        shutil.rmtree(root, ignore_errors=True)


JOB_TIMEOUT = {"quick": 400, "thorough": 1800}


def jobs(tier):
    js = []
    for kind in proc.KINDS:
        for mode in proc.MODES:
            for safe in (False, True):
                if tier == "quick" and (proc.KINDS.index(kind) + proc.MODES.index(mode) + int(safe)) % 2:
                    continue
                js.append(("process_%s_%s_%s" % (proc.SHORT[kind], mode, "json" if safe else "bin"), "process_model", {"kind": kind, "mode": mode, "safe": safe}))
    js += [("curve_%s" % mode, "curve", {"mode": mode}) for mode in proc.MODES]
    js.append(("small_objects", "small_objects", {}))
    js.append(("histories", "histories", {}))
    return js

"""C09 -- flux -> permeance inversion of a diffusion curve undoes the flux calculation."""
import warnings

import z3

import pyvaporation as pv
from pyvaporation.diffusion_curve import DiffusionCurve
from pyvaporation.mixtures import Mixtures
from pyvaporation.mixtures import mixture as mixmod
from pyvaporation.permeance.permeance import Units
from pyvaporation.pervaporation.pervaporation import Pervaporation

from ..symx import lift, SReal, real, UF, rv
from .. import build, flux, realrun, core
from ..core import Patches, close
from .C14 import factor

EXPLANATION = ("The real driving-force function get_partial_fluxes_from_permeate_composition is executed at a symbolic self-consistent "
               "permeate y* (constraint y* = J1/(J1+J2)) and the real DiffusionCurve constructor is then executed on those fluxes in the same "
               "permeate mode: the permeances it reports must be the ones the fluxes were computed with.  Curve from permeances: fluxes = "
               "permeance x feed partial pressure and re-inversion returns the permeances; permeances supplied in SI / GPU / kg are exposed in "
               "kg/(m2 h kPa).  Activity coefficients and saturation pressures are UFs (congruence links solver and curve).")
OUTSIDE = ("curves with more points than the bound (the constructor treats points independently); float rounding")
R_ = "vf.props.C09:concrete"


def concrete(inp):
    """forward solver (precision 1e-9) composed with the curve inversion on the real code"""
    T, x = inp.get("T"), inp.get("x")
    if T is None or x is None or not (273 < T < 400 and 0 < x < 1):
        return {"ok": True, "detail": "outside domain"}
    P1, P2 = inp.get("P1") or 0.03, inp.get("P2") or 0.002
    if not (P1 > 0 and P2 > 0):
        return {"ok": True, "detail": "outside domain"}
    mode = inp.get("mode", "vac")
    model = inp.get("model") or "NRTL"
    kw = {} if model == "NRTL" else {"calculation_type": model}
    Tp = inp.get("Tp") if mode == "ptemp" else None
    Pp = inp.get("Pp") if mode == "ppres" else None
    bad = []
    for name in ([inp["mixture"]] if inp.get("mixture") else ["H2O_EtOH", "H2O_iPOH"]):
        mix = getattr(Mixtures, name)
        pz = Pervaporation(realrun.membrane_for(mix), mix)
        comp = mixmod.Composition(x, "weight")
        try:
            with warnings.catch_warnings():
                warnings.simplefilter("ignore")
                j = pz.calculate_partial_fluxes(T, comp, 1e-9, Tp, Pp, pv.Permeance(P1), pv.Permeance(P2), calculation_type=model)
                if not (j[0] > 0 and j[1] > 0):
                    continue
                dc = DiffusionCurve(mixture=mix, membrane_name="m", feed_temperature=T, feed_compositions=[comp], partial_fluxes=[tuple(j)],
                                    permeate_temperature=Tp, permeate_pressure=Pp, **kw)
        except ValueError:
            continue
        except TypeError as e:
            bad.append("%s: a curve cannot be told that its fluxes were computed with %s (%s)" % (name, model, e))
            continue
        got = (dc.permeances[0][0].value, dc.permeances[0][1].value)
        if not (close(got[0], P1, 1e-6) and close(got[1], P2, 1e-6)):
            bad.append("%s %s %s: fluxes computed with permeances (%r, %r) invert to (%r, %r)" % (name, mode, model, P1, P2, float(got[0]), float(got[1])))
        # curve from permeances, units
        for units in (Units.kg_m2_h_kPa, Units.SI, Units.GPU):
            ps = (pv.Permeance(P1).convert(units, mix.first_component), pv.Permeance(P2).convert(units, mix.second_component))
            dp = DiffusionCurve(mixture=mix, membrane_name="m", feed_temperature=T, feed_compositions=[comp], permeances=[ps])
            a, b = mixmod.get_partial_pressures(T, mix, comp)
            if not (close(dp.permeances[0][0].value, P1, 1e-9) and dp.permeances[0][0].units == Units.kg_m2_h_kPa):
                bad.append("%s: permeance supplied in %s exposed as %r %s" % (name, units, dp.permeances[0][0].value, dp.permeances[0][0].units))
            if not (close(dp.partial_fluxes[0][0], P1 * a, 1e-9) and close(dp.partial_fluxes[0][1], P2 * b, 1e-9)):
                bad.append("%s: fluxes of a curve built from permeances (%s) %r, permeance x feed pressure %r" % (name, units, dp.partial_fluxes[0], (P1 * a, P2 * b)))
            db = DiffusionCurve(mixture=mix, membrane_name="m", feed_temperature=T, feed_compositions=[comp], partial_fluxes=[(0.3, 0.01)], permeances=[ps])
            if not (close(db.permeances[0][0].value, P1, 1e-9) and close(db.permeances[0][1].value, P2, 1e-9) and db.permeances[0][0].units == Units.kg_m2_h_kPa):
                bad.append("%s: curve given both fluxes and permeances in %s exposes %r %s" % (name, units, db.permeances[0][0].value, db.permeances[0][0].units))
            # points of one curve supplied in different units
            for other in (Units.kg_m2_h_kPa, Units.SI, Units.GPU):
                if other == units:
                    continue
                qs = (pv.Permeance(P1 * 1.5).convert(other, mix.first_component), pv.Permeance(P2 * 0.5).convert(units, mix.second_component))
                comp2 = mixmod.Composition(min(0.99, x * 0.5 + 0.3), "weight")
                dm = DiffusionCurve(mixture=mix, membrane_name="m", feed_temperature=T, feed_compositions=[comp, comp2], permeances=[ps, qs])
                gotm = [dm.permeances[0][0].value, dm.permeances[0][1].value, dm.permeances[1][0].value, dm.permeances[1][1].value]
                if not all(close(g, w_, 1e-9) for g, w_ in zip(gotm, (P1, P2, P1 * 1.5, P2 * 0.5))):
                    bad.append("%s: points supplied in %s and %s/%s are exposed as %r, expected %r" % (name, units, other, units, [float(g) for g in gotm], (P1, P2, P1 * 1.5, P2 * 0.5)))
            back = DiffusionCurve(mixture=mix, membrane_name="m", feed_temperature=T, feed_compositions=[comp], partial_fluxes=dp.partial_fluxes)
            if not (close(back.permeances[0][0].value, P1, 1e-9) and close(back.permeances[0][1].value, P2, 1e-9)):
                bad.append("%s: re-inversion gives %r" % (name, back.permeances[0]))
    return {"ok": not bad, "detail": "; ".join(bad[:3]), "inputs": inp}


def clamp(v):
    """the documented value clamp of Permeance"""
    return z3.If(v >= 0, v, 0)


def inversion(job, mode, basis, model="NRTL"):
    job.bound(curve_points=1)
    job.stub("GAMMA_i^%s(T, x) > 0" % model, "PSAT_i(T) > 0")
    job.assume("Composition validator as assumption; Permeance clamp real (forks)", "self-consistent permeate: y* = J1/(J1+J2), 0 < y* < 1, fluxes > 0",
               "273 < T < 400, 0 < x < 1, P1, P2 > 0, permeate condition in range", "denominators non-zero")
    fs = flux.FluxSetup(mode, model)
    ys = real("ystar")
    dom = fs.domain() + [ys.t > 0, ys.t < 1]
    inputs = fs.inputs(model=model)
    fb = [dict(f, model=model) for f in flux.fallback_for(mode)]
    tag = "C09/%s/%s" % (mode, basis) + ("" if model == "NRTL" else "/" + model)
    kw = {} if model == "NRTL" else {"calculation_type": model}
    feed = lambda: build.comp(fs.x if basis == "weight" else build.S(build.x_of_w(fs.x, fs.M1, fs.M2)), basis)
    with Patches() as pt:
        build.stub_thermo(pt, fs.mix)
        build.assume_validator(pt)

        def run():
            j = fs.pz.get_partial_fluxes_from_permeate_composition(build.perm(fs.P1), build.perm(fs.P2), build.comp(ys, "weight"), feed(), fs.T,
                                                                   fs.Tp, fs.Pp, model)
            try:
                dc = DiffusionCurve(mixture=fs.mix, membrane_name="m", feed_temperature=fs.T, feed_compositions=[feed()], partial_fluxes=[(j[0], j[1])],
                                    permeate_temperature=fs.Tp, permeate_pressure=fs.Pp, **kw)
            except TypeError as e:
                dc = e
            return j, dc

        got = 0
        for leaf in job.explore(run, dom, timeout_ms=500):
            if leaf.kind != "returned":
                continue
            j, dc = leaf.value
            if isinstance(dc, TypeError):
                got += 1
                job.judge(tag + "/curve_accepts_activity_model", False, "DiffusionCurve(calculation_type=%r): %s" % (model, dc), R_, dict(fb[0], mode=mode))
                continue
            J1, J2 = lift(j[0]), lift(j[1])
            sc = [ys.t == J1 / (J1 + J2), J1 > 0, J2 > 0]
            cs = dom + leaf.conds() + sc
            if not job.feasible(cs):
                continue  # e.g. the clamped branch of the Permeance constructor
            got += 1
            job.twin_sat(tag + "/twin", cs, timeout=10)
            cg = ["GAMMA1_" + model, "GAMMA2_" + model, "PSAT1", "PSAT2"]
            st = job.prove(tag + "/inversion", cs, [lift(dc.permeances[0][0].value) != fs.P1.t, lift(dc.permeances[0][1].value) != fs.P2.t],
                           R_, inputs, fallback=fb, congruence=cg, timeout=30)
            if st == "violated" and mode == "ppres":
                entry = core.characterised_finding("C09", tag + "/inversion")
                if entry is not None:
                    # defect-aware oracle: the curve inverts the *mole-fraction* law exactly (and C02 shows the solver follows the
                    # mass-fraction law exactly), i.e. the only deviation is the listed basis mismatch
                    a, b = fs.feed_pp()
                    ym = fs.xmol(J1 / (J1 + J2))
                    st2 = job.prove(tag + "/curve_inverts_mole_fraction_law", dom + leaf.conds() + [J1 > 0, J2 > 0, ys.t > 0],
                                    [lift(dc.permeances[0][0].value) != clamp(J1 / (a - fs.Pp.t * ym)), lift(dc.permeances[0][1].value) != clamp(J2 / (b - fs.Pp.t * (1 - ym)))],
                                    R_, inputs, congruence=cg, timeout=30)
                    own = fs.F(ys.t, "mass")
                    st3 = job.prove(tag + "/solver_follows_mass_fraction_law", dom + leaf.conds(), [J1 != own[0], J2 != own[1]], None, inputs, congruence=cg, timeout=30)
                    if st2 == "discharged" and st3 == "discharged":
                        job.mark_known(tag + "/inversion", entry["what"])
            job.record(tag + "/units_tag", "discharged" if dc.permeances[0][0].units == Units.kg_m2_h_kPa else "violated", "", nontrivial=False,
                       replay={"fn": R_, "inputs": dict(fb[0], mode=mode)})
        if not got:
            job.unreached(tag)


def from_permeances(job):
    """curve built from permeances (any unit): exposed in kg units, fluxes = P x feed pressure, re-inversion returns P"""
    job.bound(curve_points=2)
    fs = flux.FluxSetup("vac", "NRTL")
    x2, Q1, Q2 = real("x2"), real("Q1"), real("Q2")
    dom = fs.domain() + [x2.t > 0, x2.t < 1, Q1.t > 0, Q2.t > 0]
    inputs = fs.inputs()
    fb = flux.fallback_for("vac")
    c1, c2 = fs.mix.first_component, fs.mix.second_component
    with Patches() as pt:
        build.stub_thermo(pt, fs.mix)
        build.assume_validator(pt)
        short = lambda u: {"kg/(m2*h*kPa)": "kg"}.get(u, u)
        # one unit for the whole curve, and curves whose points (and components) come in different units
        for units, units_b in ((Units.kg_m2_h_kPa, None), (Units.SI, None), (Units.GPU, None),
                               (Units.kg_m2_h_kPa, Units.SI), (Units.SI, Units.GPU), (Units.GPU, Units.kg_m2_h_kPa)):
            tag = "C09/from_permeances/%s" % short(units) + ("" if units_b is None else "+" + short(units_b))
            ua = (units, units) if units_b is None else (units, units_b)      # point 0: (component 1, component 2)
            ub = (units, units) if units_b is None else (units_b, units)      # point 1

            def run():
                comps = [build.comp(fs.x, "weight"), build.comp(x2, "molar")]
                perms = [(build.perm(fs.P1, ua[0]), build.perm(fs.P2, ua[1])), (build.perm(Q1, ub[0]), build.perm(Q2, ub[1]))]
                dc = DiffusionCurve(mixture=fs.mix, membrane_name="m", feed_temperature=fs.T, feed_compositions=comps, permeances=perms)
                back = DiffusionCurve(mixture=fs.mix, membrane_name="m", feed_temperature=fs.T, feed_compositions=comps, partial_fluxes=dc.partial_fluxes)
                perms2 = [(build.perm(fs.P1, ua[0]), build.perm(fs.P2, ua[1])), (build.perm(Q1, ub[0]), build.perm(Q2, ub[1]))]
                both = DiffusionCurve(mixture=fs.mix, membrane_name="m", feed_temperature=fs.T, feed_compositions=comps,
                                      partial_fluxes=[(real("J1a"), real("J2a")), (real("J1b"), real("J2b"))], permeances=perms2)
                return dc, back, both

            got = 0
            for leaf in job.explore(run, dom, timeout_ms=500):
                if leaf.kind != "returned":
                    continue
                dc, back, both = leaf.value
                cs = dom + leaf.conds()
                if not job.feasible(cs):
                    continue
                got += 1
                kg1 = lambda v, u: v * factor(u, c1.molecular_weight) / factor(Units.kg_m2_h_kPa, c1.molecular_weight)
                kg2 = lambda v, u: v * factor(u, c2.molecular_weight) / factor(Units.kg_m2_h_kPa, c2.molecular_weight)
                want = [(kg1(fs.P1.t, ua[0]), kg2(fs.P2.t, ua[1])), (kg1(Q1.t, ub[0]), kg2(Q2.t, ub[1]))]
                pps = [fs.pp(fs.T.t, fs.x.t, "weight"), fs.pp(fs.T.t, x2.t, "molar")]
                for i in range(2):
                    job.prove("%s/exposed_in_kg/p%d" % (tag, i), cs, [lift(dc.permeances[i][0].value) != want[i][0], lift(dc.permeances[i][1].value) != want[i][1]],
                              R_, inputs, fallback=fb)
                    job.prove("%s/fluxes/p%d" % (tag, i), cs, [lift(dc.partial_fluxes[i][0]) != want[i][0] * pps[i][0], lift(dc.partial_fluxes[i][1]) != want[i][1] * pps[i][1]],
                              R_, inputs, fallback=fb, congruence=["GAMMA1_NRTL", "GAMMA2_NRTL"])
                    job.prove("%s/reinversion/p%d" % (tag, i), cs, [lift(back.permeances[i][0].value) != want[i][0], lift(back.permeances[i][1].value) != want[i][1]],
                              R_, inputs, fallback=fb, congruence=["GAMMA1_NRTL", "GAMMA2_NRTL"])
                    job.prove("%s/both_supplied_exposed_in_kg/p%d" % (tag, i), cs, [lift(both.permeances[i][0].value) != want[i][0], lift(both.permeances[i][1].value) != want[i][1]],
                              R_, inputs, fallback=fb)
                    okb = both.permeances[i][0].units == Units.kg_m2_h_kPa and both.permeances[i][1].units == Units.kg_m2_h_kPa
                    job.judge("%s/both_supplied_units_tag/p%d" % (tag, i), okb, "units %r" % both.permeances[i][0].units, R_, dict(fb[0]), nontrivial=False)
                    ok = dc.permeances[i][0].units == Units.kg_m2_h_kPa and dc.permeances[i][1].units == Units.kg_m2_h_kPa
                    job.record("%s/units_tag/p%d" % (tag, i), "discharged" if ok else "violated", "", nontrivial=False, replay={"fn": R_, "inputs": dict(fb[0])})
            if not got:
                job.unreached(tag)


def jobs(tier):
    js = [("inversion_%s_%s" % (mode, basis), "inversion", {"mode": mode, "basis": basis}) for mode in flux.MODES for basis in ("weight", "molar")]
    js += [("inversion_%s_%s_UNIQUAC" % (mode, basis), "inversion", {"mode": mode, "basis": basis, "model": "UNIQUAC"})
           for mode in flux.MODES for basis in (("weight",) if tier == "quick" else ("weight", "molar"))]
    js.append(("from_permeances", "from_permeances", {}))
    return js

"""C11 -- process models scale correctly with size and with the area/time trade-off."""
import z3

from ..symx import lift, SReal, real, Pure
from .. import build, proc, realrun, terms
from ..core import Patches, close

EXPLANATION = ("Each process model is executed twice inside one exploration on shared symbolic inputs: once as given and once with "
               "(k A, k m0) resp. (k A, dt / k); the flux solver, permeance and heat functions are uninterpreted functions of their "
               "arguments, so the twin gets the same answers exactly when it asks the same questions (Ackermann congruence).  Intensive "
               "series must be equal, extensive ones scale by k; the step-0 flux call's arguments must not mention A, m0 or dt.")
OUTSIDE = "step counts above the bound; scale factors are any k > 0 (not only 1e-3..1e3); float rounding"
R_ = "vf.props.C11:concrete"
N_TIER = {"quick": (3,), "thorough": (2, 3, 4)}


def _cmp_models(a, b, k, what):
    bad = []
    N = len(a.time)
    for i in range(N):
        for name, x, y, f in (
            ("flux1", a.partial_fluxes[i][0], b.partial_fluxes[i][0], 1), ("flux2", a.partial_fluxes[i][1], b.partial_fluxes[i][1], 1),
            ("feed composition", a.feed_compositions[i].p, b.feed_compositions[i].p, 1), ("permeate composition", a.permeate_composition[i].p, b.permeate_composition[i].p, 1),
            ("permeance1", a.permeances[i][0].value, b.permeances[i][0].value, 1), ("permeance2", a.permeances[i][1].value, b.permeances[i][1].value, 1),
            ("temperature", a.feed_temperature[i], b.feed_temperature[i], 1),
            ("feed mass", a.feed_mass[i], b.feed_mass[i], k), ("evaporation heat", a.feed_evaporation_heat[i], b.feed_evaporation_heat[i], k),
            ("condensation heat", a.permeate_condensation_heat[i], b.permeate_condensation_heat[i], k),
        ):
            if x is None and y is None:
                continue
            if not close(float(y), f * float(x), 2e-6, 1e-10):
                bad.append("%s step %d %s: %r vs %r x %r" % (what, i, name, float(y), f, float(x)))
    return bad


def concrete(inp):
    if not realrun.admissible_process(inp):
        return {"ok": True, "detail": "outside domain"}
    k = inp.get("k") or 3.0
    if not k > 0:
        return {"ok": True, "detail": "k"}
    bad = []
    try:
        i = dict(inp, prec=1e-9)
        a, _, _ = realrun.process(i)
        b, _, _ = realrun.process(dict(i, A=i["A"] * k, m0=i["m0"] * k))
        bad += _cmp_models(a, b, k, "(kA, k m0)")
        if not inp.get("program"):
            c, _, _ = realrun.process(dict(i, A=i["A"] * k, dt=i["dt"] / k))
            bad += _cmp_models(a, c, 1.0, "(kA, dt/k)")
    except ValueError as e:
        return {"ok": True, "detail": "run rejected: %s" % e}
    return {"ok": not bad, "detail": "%s %s: %s" % (inp["kind"], inp.get("mixture"), "; ".join(bad[:3])), "inputs": inp}


def _stub_names():
    return sorted({n for (_, n, _) in Pure.tab.values() if n.split("_")[0] in ("FLUX1", "FLUX2") or n[:4] in ("HVAP", "PERM", "COOL") or n[:2] == "CP" or n in ("EXP", "LOG")})


def scale(job, kind, mode, tier, Ns=None):
    Ns = tuple(Ns) if Ns else N_TIER[tier]
    job.bound(process_steps_N=list(Ns))
    job.stub("FLUX(all arguments) for calculate_partial_fluxes", "PERM_i(T)", "HVAP_i(T), CP_i(T), COOL_i(t0,t1)", "find_best_fit -> symbolic function", "EA_i")
    job.assume("k > 0", "Composition validator and Permeance clamp as assumptions", "denominators non-zero")
    ideal = not kind.startswith("non_ideal")
    iso = "non_isothermal" not in kind
    progs = (None,) if iso else ((None, "polynomial") if tier == "quick" else proc.PROGRAMS)
    for program in progs:
        for variant in ("size", "area_time"):
            if variant == "area_time" and program is not None:
                continue
            for N in Ns:
                a = proc.ProcSetup(kind, mode, "weight", program, N, n_curves=2, initial_permeances=False)
                k = real("k")
                b = proc.ProcSetup(kind, mode, "weight", program, N, n_curves=2, initial_permeances=False, mix=a.mix)
                b.curves, b.prec, b.membrane, b.pz, b.tprog, b.coefs = a.curves, a.prec, a.membrane, a.pz, a.tprog, a.coefs
                b.T0, b.x0, b.Tp, b.Pp = a.T0, a.x0, a.Tp, a.Pp
                b.A = k * a.A
                if variant == "size":
                    b.m0, b.dt = k * a.m0, a.dt
                else:
                    b.m0, b.dt = a.m0, a.dt / k
                import pyvaporation as pv
                b.cond = pv.Conditions(membrane_area=b.A, initial_feed_temperature=a.T0, initial_feed_amount=b.m0,
                                       initial_feed_composition=a.cond.initial_feed_composition, permeate_temperature=a.Tp,
                                       permeate_pressure=a.Pp, temperature_program=a.tprog)
                b.P0 = a.P0 = getattr(a, "P0", None)
                dom = a.domain() + [k.t > 0]
                inputs = a.inputs(k=k.t)
                fb = [dict(f, k=3.0) for f in realrun.proc_fallback(mode, program)]
                tag = "C11/%s/%s/%s/%s/N%d" % (proc.SHORT[kind], mode, program or "noprog", variant, N)
                with Patches() as pt:
                    a.install(pt, name_state=True)
                    b.calls = a.calls

                    def run():
                        ma = a.run()
                        ca = list(a.calls)
                        mb = b.run()
                        return ma, mb, ca, list(b.calls)

                    got = 0
                    for leaf in job.explore(run, dom, timeout_ms=100):
                        if leaf.kind != "returned":
                            continue
                        got += 1
                        ma, mb, ca, cb = leaf.value
                        cs = dom + leaf.conds()
                        cg = _stub_names()
                        f = k.t if variant == "size" else z3.RealVal(1)
                        lemmas = []  # equalities already discharged on this leaf (sound to reuse: same path condition)
                        for i in range(N):
                            groups = [
                                ("composition", [(lift(ma.feed_compositions[i].p), lift(mb.feed_compositions[i].p), 1)]),
                                ("mass", [(lift(ma.feed_mass[i]), lift(mb.feed_mass[i]), f)]),
                                ("temperature", [(lift(ma.feed_temperature[i]), lift(mb.feed_temperature[i]), 1)]),
                                ("permeance1", [(lift(ma.permeances[i][0].value), lift(mb.permeances[i][0].value), 1)]),
                                ("permeance2", [(lift(ma.permeances[i][1].value), lift(mb.permeances[i][1].value), 1)]),
                                ("fluxes", [(lift(ma.partial_fluxes[i][0]), lift(mb.partial_fluxes[i][0]), 1),
                                            (lift(ma.partial_fluxes[i][1]), lift(mb.partial_fluxes[i][1]), 1)]),
                                ("evaporation_heat", [(lift(ma.feed_evaporation_heat[i]), lift(mb.feed_evaporation_heat[i]), f)]),
                            ]
                            if ma.permeate_condensation_heat[i] is not None and mb.permeate_condensation_heat[i] is not None:
                                groups.append(("condensation_heat", [(lift(ma.permeate_condensation_heat[i]), lift(mb.permeate_condensation_heat[i]), f)]))
                            for gname, eq in groups:
                                st = job.prove(tag + "/step%d/%s" % (i, gname), cs + lemmas, [y != fac * x for (x, y, fac) in eq], R_, inputs,
                                               fallback=fb, congruence=cg, timeout=30 if tier == "quick" else 150, near=2)
                                if st == "discharged":
                                    lemmas += [y == fac * x for (x, y, fac) in eq]
                        # fluxes at step 0 never depend on area, feed amount or step length
                        if variant == "size":
                            args0 = ca[0][0]
                            syms = [args0["feed_temperature"], args0["composition"].p, args0["precision"], args0["first_component_permeance"].value,
                                    args0["second_component_permeance"].value]
                            syms += [v for v in (args0["permeate_temperature"], args0["permeate_pressure"]) if v is not None]
                            fv = set()
                            for s_ in syms:
                                fv |= terms.free_vars(lift(s_))
                            leak = fv & {"A", "m0", "dt"}
                            job.record(tag + "/step0_flux_independent_of_size", "violated" if leak else "discharged",
                                       "step-0 flux question mentions %s" % sorted(leak), nontrivial=True,
                                       replay={"fn": "vf.props.C11:concrete_step0", "inputs": dict(fb[0], kind=kind, mode=mode, program=program, N=1)})
                    if not got:
                        job.unreached(tag)
    if tuple(Ns) == (1,):
        job.refute_concretely("C11/%s/%s/integer_step_length" % (proc.SHORT[kind], mode), "vf.props.C11:concrete_integer_step", {"kind": kind, "mode": mode})
    for f_ in realrun.proc_fallback(mode)[:1]:
        if ideal:
            r = concrete(dict(f_, kind=kind, mode=mode, N=3, k=2.5))
            job.validated("C11 %s %s" % (kind, mode), r["ok"], r["detail"])


def concrete_integer_step(inp):
    """a whole-number step length given as an int and as a float is the same step length (labelled concrete point: the dtype of a number
    has no counterpart in real arithmetic), and the size scaling holds for it"""
    import warnings
    mode = inp.get("mode")
    f = dict(realrun.proc_fallback(mode, None)[0], kind=inp["kind"], mode=mode, N=3, A=0.004, m0=12.0)
    bad = []
    with warnings.catch_warnings():
        warnings.simplefilter("ignore")
        try:
            a, _, _ = realrun.process(dict(f, dt=1))
            b, _, _ = realrun.process(dict(f, dt=1.0))
            c, _, _ = realrun.process(dict(f, dt=1, A=f["A"] * 1e-3, m0=f["m0"] * 1e-3))
        except ValueError as e:
            return {"ok": True, "detail": "run rejected: %s" % e, "inputs": inp}
    bad += _cmp_models(b, a, 1.0, "delta_hours=1 (int) against delta_hours=1.0")
    bad += _cmp_models(a, c, 1e-3, "(kA, k m0), k=1e-3, integer step length")
    return {"ok": not bad, "detail": "%s: %s" % (inp["kind"], "; ".join(bad[:3])), "inputs": inp}


def concrete_step0(inp):
    if not realrun.admissible_process(inp):
        return {"ok": True, "detail": "outside domain"}
    a, _, _ = realrun.process(dict(inp, N=1))
    bad = []
    for ch in ({"A": inp["A"] * 7}, {"m0": inp["m0"] * 3}, {"dt": inp["dt"] * 0.1}):
        b, _, _ = realrun.process(dict(inp, N=1, **ch))
        for i in (0, 1):
            if not close(a.partial_fluxes[0][i], b.partial_fluxes[0][i], 1e-9):
                bad.append("step-0 flux%d changes from %r to %r with %r" % (i + 1, a.partial_fluxes[0][i], b.partial_fluxes[0][i], ch))
    return {"ok": not bad, "detail": "; ".join(bad[:2]), "inputs": inp}


JOB_TIMEOUT = {"quick": 500, "thorough": 3000}


def jobs(tier):
    js = [("%s_%s" % (proc.SHORT[k], mode), "scale", {"kind": k, "mode": mode, "tier": tier}) for k in proc.KINDS for mode in proc.MODES]
    # one-step runs as jobs of their own: decided in seconds even when a change makes the longer explorations blow up (a job that exceeds
    # its time budget loses all its obligations)
    js += [("%s_%s_N1" % (proc.SHORT[k], mode), "scale", {"kind": k, "mode": mode, "tier": tier, "Ns": [1]}) for k in proc.KINDS for mode in proc.MODES]
    return js

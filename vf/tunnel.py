"""Token tunnel for the persistence checks (C17): symbolic cells are written by the *real* writers
(pandas.to_csv, json.dump, joblib.dump) as unique tokens and mapped back after the *real* parsers.
Numeric text fidelity of floats is therefore outside the claim; which field goes to which column /
key, unit and basis conversions on load, None <-> NaN handling and file layout are inside it."""
import contextlib
import json
import re

import pandas

from . import symx
from .symx import SReal

_TOKENS = {}
_RE = re.compile(r"^SYM[0-9]+X$")


def token_of(s):
    t = "SYM%dX" % s.t.get_id()
    _TOKENS[t] = s
    return t


def resolve(t):
    return _TOKENS[t]


def _reduce(self):
    return (resolve, (token_of(self),))


def _to_tokens(o):
    if isinstance(o, SReal):
        return token_of(o)
    if isinstance(o, dict):
        return {k: _to_tokens(v) for k, v in o.items()}
    if isinstance(o, (list, tuple)):
        return [_to_tokens(v) for v in o]
    return o


def _from_tokens(o):
    if isinstance(o, str) and _RE.match(o):
        return _TOKENS[o]
    if isinstance(o, dict):
        return {k: _from_tokens(v) for k, v in o.items()}
    if isinstance(o, list):
        return [_from_tokens(v) for v in o]
    return o


@contextlib.contextmanager
def tunnel():
    old_str, old_repr = SReal.__str__, SReal.__repr__
    old_read, old_dump, old_load = pandas.read_csv, json.dump, json.load
    had_reduce = "__reduce__" in SReal.__dict__

    def read_csv(*a, **k):
        df = old_read(*a, **k)
        for c in df.columns:
            col = df[c]
            if col.dtype == object or pandas.api.types.is_string_dtype(col.dtype):
                if any(isinstance(v, str) and _RE.match(v) for v in col):
                    df[c] = pandas.Series([_TOKENS[v] if isinstance(v, str) and _RE.match(v) else v for v in col], index=col.index, dtype=object)
        return df

    def dump(obj, fp, *a, **k):
        return old_dump(_to_tokens(obj), fp, *a, **k)

    def load(fp, *a, **k):
        return _from_tokens(old_load(fp, *a, **k))

    SReal.__str__ = lambda self: token_of(self)
    SReal.__reduce__ = _reduce
    pandas.read_csv, json.dump, json.load = read_csv, dump, load
    try:
        yield
    finally:
        SReal.__str__ = old_str
        if not had_reduce:
            del SReal.__reduce__
        pandas.read_csv, json.dump, json.load = old_read, old_dump, old_load

"""vcheck driver: runs the jobs of one property in worker processes, aggregates verdicts, writes
evidence, prints VIOLATION / KNOWN-FINDING / INCONCLUSIVE lines and sets the exit code."""
import argparse
import importlib
import json
import multiprocessing as mp
import os
import sys
import time
import traceback

VERIF = os.path.dirname(os.path.dirname(os.path.abspath(__file__)))
REPO = os.environ.get("VERIF_REPO", "/repo")
sys.path.insert(0, REPO)
sys.path.insert(0, VERIF)

EXIT_OK, EXIT_VIOLATION, EXIT_HARNESS = 0, 1, 2


def _worker(pid, modname, fnname, kwargs, name, tier, seed, conn, budget=None):
    try:
        import warnings
        import threading

        warnings.filterwarnings("ignore")
        if os.environ.get("VERIF_DEBUG"):
            import faulthandler

            faulthandler.dump_traceback_later(int(os.environ["VERIF_DEBUG"]), repeat=True)
        from vf import core, symx

        symx.Pure.reset()
        symx.Stats.reset()
        job = core.Job(name, pid, tier, seed)
        mod = importlib.import_module(modname)
        t0 = time.time()

        def hand_in_what_is_decided():
            # shortly before the driver's budget runs out: the obligations decided so far are kept (a change that makes an exploration
            # blow up must not erase the verdicts already reached), everything else of this job is inconclusive
            try:
                out = job.export()
                out["wall"] = round(time.time() - t0, 2)
                out["timed_out"] = True
                out.setdefault("errors", []).append("job exceeded %ds" % budget)
                out["results"] = list(out.get("results", [])) + [
                    {"id": "%s/*" % name, "status": "inconclusive", "detail": "job time budget exceeded (%d obligations decided before)" % len(out.get("results", [])),
                     "nontrivial": False, "hash": name, "time": budget}]
                conn.send(out)
                conn.close()
            finally:
                os._exit(0)

        if budget:
            timer = threading.Timer(max(5.0, budget - 12.0), hand_in_what_is_decided)
            timer.daemon = True
            timer.start()
        try:
            getattr(mod, fnname)(job, **kwargs)
        except core.OutOfReach as e:
            job.record("%s/*" % name, "inconclusive", str(e), nontrivial=False)
        except BaseException as e:  # noqa: a crashed job is a harness error, never a verdict
            job.errors.append("CRASH %s: %s\n%s" % (type(e).__name__, e, traceback.format_exc()[-2500:]))
            job.crashed = True
        if budget:
            timer.cancel()
        out = job.export()
        out["wall"] = round(time.time() - t0, 2)
        conn.send(out)
    except BaseException as e:  # noqa
        conn.send({"name": name, "crashed": True, "errors": ["worker failure %r\n%s" % (e, traceback.format_exc()[-2000:])],
                   "results": []})
    finally:
        conn.close()


def run_jobs(pid, jobs, tier, seed, workers, job_timeout):
    ctx = mp.get_context("spawn")
    pending = list(jobs)
    running = []
    done = []
    while pending or running:
        while pending and len(running) < workers:
            name, modname, fnname, kwargs = pending.pop(0)
            parent, child = ctx.Pipe(duplex=False)
            p = ctx.Process(target=_worker, args=(pid, modname, fnname, kwargs, name, tier, seed, child, job_timeout))
            p.start()
            child.close()
            running.append((name, p, parent, time.time()))
        still = []
        for name, p, conn, t0 in running:
            if conn.poll(0.02):
                try:
                    done.append(conn.recv())
                except EOFError:
                    done.append({"name": name, "crashed": True, "errors": ["worker died without a result"], "results": []})
                p.join(5)
                conn.close()
            elif not p.is_alive():
                done.append({"name": name, "crashed": True, "errors": ["worker exited with code %s" % p.exitcode], "results": []})
                conn.close()
            elif time.time() - t0 > job_timeout:
                p.kill()
                p.join(5)
                done.append({"name": name, "timed_out": True, "errors": ["job exceeded %ds" % job_timeout], "results": [
                    {"id": "%s/*" % name, "status": "inconclusive", "detail": "job time budget exceeded",
                     "nontrivial": False, "hash": name, "time": job_timeout}]})
                conn.close()
            else:
                still.append((name, p, conn, t0))
        running = still
    return done


def main(argv=None):
    ap = argparse.ArgumentParser()
    ap.add_argument("pid")
    ap.add_argument("--tier", default=os.environ.get("VERIF_TIER", "quick"), choices=["quick", "thorough"])
    ap.add_argument("--replay")
    ap.add_argument("--only", help="run only jobs whose name contains this text (developer use; no evidence written)")
    ap.add_argument("--workers", type=int, default=int(os.environ.get("VERIF_WORKERS", "16")))
    args = ap.parse_args(argv)
    pid = args.pid
    seed = int(os.environ.get("VERIF_SEED", "0") or 0)
    t_start = time.time()

    if args.replay:
        from vf import core

        spec = json.load(open(args.replay))
        out = core.run_replay(spec["fn"], spec["inputs"])
        print(json.dumps(out, indent=1, default=str))
        if not out["ok"]:
            print("VIOLATION property=%s replay=%s" % (pid, args.replay))
            return EXIT_VIOLATION
        return EXIT_OK

    mod = importlib.import_module("vf.props.%s" % pid)
    jobs = [(n, "vf.props.%s" % pid, f, kw) for (n, f, kw) in mod.jobs(args.tier)]
    if args.only:
        jobs = [j for j in jobs if args.only in j[0]]
    job_timeout = getattr(mod, "JOB_TIMEOUT", {"quick": 240, "thorough": 1800})[args.tier]
    done = run_jobs(pid, jobs, args.tier, seed, args.workers, job_timeout)

    from vf import core

    known = core.finding_matcher(pid)
    results = []
    agg = {"paths": {}, "functions": set(), "stubs": set(), "assumptions": set(), "bounds": {}, "samples": [],
           "solver_time": 0.0, "feas_queries": 0, "feas_time": 0.0, "validation_points": 0,
           "vacuity_checked": 0, "cross": {"checked": 0, "agree": 0, "timeout": 0}}
    harness_errors = []
    for d in done:
        results.extend(d.get("results", []))
        for k, v in d.get("paths", {}).items():
            agg["paths"][k] = agg["paths"].get(k, 0) + v
        agg["functions"].update(d.get("functions", []))
        agg["stubs"].update(d.get("stubs", []))
        agg["assumptions"].update(d.get("assumptions", []))
        agg["bounds"].update(d.get("bounds", {}))
        agg["samples"].extend(d.get("samples", [])[:1])
        agg["solver_time"] += d.get("solver_time", 0.0)
        agg["feas_queries"] += d.get("feas_queries", 0)
        agg["feas_time"] += d.get("feas_time", 0.0)
        agg["validation_points"] += d.get("validation", {}).get("points", 0)
        agg["vacuity_checked"] += d.get("vacuity", {}).get("checked", 0)
        for k in ("checked", "agree", "timeout"):
            agg["cross"][k] += d.get("cross", {}).get(k, 0)
        if d.get("crashed"):
            harness_errors.append("job %s crashed: %s" % (d.get("name"), "; ".join(d.get("errors", []))[-1500:]))
        for m in d.get("validation", {}).get("mismatches", []):
            harness_errors.append("translator validation mismatch in %s: %s" % (d.get("name"), m))
        for m in d.get("vacuity", {}).get("failed", []):
            harness_errors.append("vacuous harness in %s: %s" % (d.get("name"), m))
        for m in d.get("cross", {}).get("disagree", []):
            harness_errors.append("solver disagreement in %s: %s" % (d.get("name"), m))

    if os.environ.get("VERIF_COLLECT_BATTERY"):
        bag = []
        for d in done:
            for item in d.get("battery", []):
                if list(item) not in bag:
                    bag.append(list(item))
        os.makedirs(os.path.join(VERIF, "battery"), exist_ok=True)
        with open(os.path.join(VERIF, "battery", "%s.raw.json" % pid), "w") as f:
            json.dump(bag, f, indent=0)

    # safety net: where changed code left the reach of the lifted execution (or a job crashed / ran out of its budget) no solver verdict
    # exists for that part.  The property's battery -- the real-code questions its replays ask, at fixed inputs, assembled from an
    # unchanged-tree run by tools/mkbattery.py -- is then run in a fresh process; a failing one is a violation shown on the real code.
    lost = [r for r in results if r["status"] == "inconclusive" and any(k in str(r.get("detail", "")) for k in ("out of reach", "time budget", "replay error"))]
    crashed = [d for d in done if d.get("crashed")]
    bfile = os.path.join(VERIF, "battery", "%s.json" % pid)
    if (lost or crashed) and os.path.exists(bfile) and not os.environ.get("VERIF_NO_BATTERY"):
        from vf import core
        outs = core.run_battery(json.load(open(bfile)))
        for k, (spec, inputs, out) in enumerate(outs):
            res = {"id": "%s/battery/%s/%d" % (pid, spec.split(":")[1], k), "time": 0.0, "nontrivial": True, "job": "battery", "hash": "battery%d" % k,
                   "kind": "concrete_point", "detail": str(out.get("detail", ""))[:600]}
            if out.get("ok", True):
                res["status"] = "discharged"
            else:
                res.update(status="violated", replay={"fn": spec, "inputs": out.get("inputs", inputs)})
            results.append(res)

    # known findings are matched by the obligation (call site / relation) they name
    for r in results:
        if r["status"] == "violated":
            kf = known(r)
            if kf:
                r["status"] = "known"
                r["finding"] = kf

    by = {}
    for r in results:
        by.setdefault(r["status"], []).append(r)
    violated = by.get("violated", [])
    os.makedirs(os.path.join(VERIF, "replays"), exist_ok=True)
    lines = []
    seen_findings = set()
    for r in by.get("known", []):
        if r["finding"] not in seen_findings:
            seen_findings.add(r["finding"])
            lines.append("KNOWN-FINDING: property=%s %s" % (pid, r["finding"]))
    for r in by.get("inconclusive", []):
        lines.append("INCONCLUSIVE obligation=%s reason=%s" % (r["id"], str(r.get("detail", ""))[:200].replace("\n", " ")))
    shown = 0
    for r in violated:
        path = os.path.join(VERIF, "replays", "%s-%s.json" % (pid, r["hash"]))
        with open(path, "w") as f:
            json.dump({"property": pid, "obligation": r["id"], "detail": r.get("detail", ""),
                       "fn": r.get("replay", {}).get("fn"), "inputs": r.get("replay", {}).get("inputs"),
                       "how": "cd /verif && ./vcheck %s --replay %s" % (pid, path)}, f, indent=1, default=str)
        shown += 1
        if shown <= 12:
            lines.append("VIOLATION property=%s replay=%s   # obligation %s: %s"
                         % (pid, path, r["id"], str(r.get("detail", ""))[:300].replace("\n", " ")))
    if shown > 12:
        lines.append("... %d further violated obligations (replay files written under /verif/replays)" % (shown - 12))

    n_ob = len(results)
    n_dis = len(by.get("discharged", []))
    n_conc = sum(1 for r in by.get("discharged", []) if r.get("kind") == "concrete_point")
    n_struct = sum(1 for r in by.get("discharged", []) if r.get("kind") != "concrete_point" and not r.get("solver"))
    nontrivial_hashes = {r["hash"] for r in results if r.get("nontrivial") and r["status"] in ("discharged", "known", "violated")}
    if n_dis == 0 and not violated and not args.only and not by.get("inconclusive"):
        harness_errors.append("vacuous run: no obligation was produced")

    wall = time.time() - t_start
    summary = {
        "obligations": n_ob, "discharged": n_dis, "known_findings": len(by.get("known", [])),
        "inconclusive": len(by.get("inconclusive", [])), "violated": len(violated),
    }
    if not args.only and not os.environ.get("VERIF_NO_EVIDENCE"):
        cov = {
            "explanation": getattr(mod, "EXPLANATION", "") + "  Deciding step: z3 verdict (unsat) over all real-valued inputs "
            "within the stated bounds on terms produced by running the repository's own functions on symbolic proxies.",
            "evaluations": n_ob,
            "distinct_nontrivial": len(nontrivial_hashes),
            "rule": "one evaluation = one solver obligation (path condition + negated property) generated from the current "
                    "source; non-trivial = not closed by z3.simplify alone; distinct = structural hash of the SMT-LIB text "
                    "(fresh-variable counters erased) is new in this run",
            "samples": agg["samples"][:3] or [{"obligation": r["id"], "verdict": r["status"]} for r in results[:3]],
            "obligations": n_ob,
            "discharged": n_dis,
            "known_findings": summary["known_findings"],
            "inconclusive": summary["inconclusive"],
            "inconclusive_list": [r["id"] for r in by.get("inconclusive", [])][:40],
            "checker_cmd": "./vcheck %s --tier %s" % (pid, args.tier),
            "trusted_base": ["CPython 3.12 executing the repo code", "z3 5.1.0", "vf/symx.py proxies", "vf/terms.py transformations",
                             "stub contracts listed under stubs"],
            "functions_encoded": sorted(agg["functions"]),
            "bounds": agg["bounds"],
            "outside_bounds": getattr(mod, "OUTSIDE", ""),
            "stubs": sorted(agg["stubs"]),
            "paths": agg["paths"],
            "queries_discharged": n_dis - n_conc - n_struct,
            "concrete_points": {"count": n_conc, "ids": [r["id"] for r in results if r.get("kind") == "concrete_point"][:30],
                                "note": "real-code runs at fixed inputs (solver-found witnesses, or what real arithmetic cannot express: nan / inf, "
                                        "integer dtypes); they are not solver verdicts"},
            "structural_facts": {"count": n_struct, "note": "facts observed on the lifted run without a solver query (tags, lengths, identities, "
                                                            "raising leaves); a failing one is reported only after the real code reproduces it"},
            "solver_time_s": round(agg["solver_time"], 3),
            "feasibility_queries": agg["feas_queries"],
            "feasibility_time_s": round(agg["feas_time"], 3),
            "cross_checked": agg["cross"],
            "translator_validation_points": agg["validation_points"],
            "vacuity_twins_checked": agg["vacuity_checked"],
            "jobs": len(done),
            "harness_errors": harness_errors,
            "exhaustive": False,
        }
        ev = {
            "property_id": pid, "tier": args.tier, "seed": seed, "level": "other", "coverage": cov,
            "assumptions": sorted(agg["assumptions"]) + ["all claims are over the reals (floating-point rounding is outside the claim)"],
            "wall_s": round(wall, 2), "violations": len(violated),
        }
        os.makedirs(os.path.join(VERIF, "evidence"), exist_ok=True)
        with open(os.path.join(VERIF, "evidence", "%s.json" % pid), "w") as f:
            json.dump(ev, f, indent=1, default=str)

    slow = sorted(((d.get("wall", 0), d.get("name")) for d in done), reverse=True)[:3]
    for l in lines:
        print(l)
    print("slowest jobs: %s" % ", ".join("%s %.0fs" % (n, w) for w, n in slow))
    print("%s tier=%s jobs=%d paths=%s %s solver=%.1fs wall=%.1fs" % (pid, args.tier, len(done), agg["paths"], summary,
                                                                     agg["solver_time"], wall))
    if violated:
        return EXIT_VIOLATION
    if harness_errors:
        for e in harness_errors:
            print("HARNESS-ERROR %s" % e)
        return EXIT_HARNESS
    return EXIT_OK


if __name__ == "__main__":
    sys.exit(main())

"""Shared harness for the four process models (C01, C03, C05, C08, C11, C18)."""
import inspect
import sys

import numpy
import z3

import pyvaporation as pv
from pyvaporation.conditions.conditions import TemperatureProgram
from pyvaporation.diffusion_curve import DiffusionCurve, DiffusionCurveSet
from pyvaporation.optimizer.optimizer import PervaporationFunction
from pyvaporation.pervaporation import pervaporation as pvmod
from pyvaporation.pervaporation.pervaporation import Pervaporation
from pyvaporation import utils as pvutils

from .symx import real, lift, SReal, UF, rv, EXP, LOG, named
from . import build
from .core import Patches

KINDS = ("ideal_isothermal_process", "ideal_non_isothermal_process", "non_ideal_isothermal_process", "non_ideal_non_isothermal_process")
SHORT = {"ideal_isothermal_process": "ideal_iso", "ideal_non_isothermal_process": "ideal_noniso",
         "non_ideal_isothermal_process": "nonideal_iso", "non_ideal_non_isothermal_process": "nonideal_noniso"}
MODES = ("vac", "ptemp", "ppres")
PROGRAMS = (None, "polynomial", "exponential", "logarithmic")
_SIG = inspect.signature(Pervaporation.calculate_partial_fluxes)


class ProcSetup:
    def __init__(self, kind, mode="vac", basis="weight", program=None, N=2, sfx="", n_curves=2, initial_permeances=False,
                 model="NRTL", ncoef=3, mix=None, share=None, p0_units=None, curve_basis="weight"):
        self.kind, self.mode, self.basis, self.program, self.N, self.model = kind, mode, basis, program, N, model
        self.isothermal = "non_isothermal" not in kind
        self.ideal = not kind.startswith("non_ideal")
        self.n_curves, self.initial_permeances = n_curves, initial_permeances
        s = sfx
        self.mix = mix or build.sym_mixture(uniquac=False)
        self.M1, self.M2 = self.mix.first_component.molecular_weight, self.mix.second_component.molecular_weight
        self.A, self.T0, self.m0, self.x0 = real("A" + s), real("T0" + s), real("m0" + s), real("x0" + s)
        self.dt, self.prec = real("dt" + s), real("prec" + s)
        self.Tp = real("Tp" + s) if mode == "ptemp" else None
        self.Pp = real("Pp" + s) if mode == "ppres" else None
        self.coefs = [real("tc%d%s" % (i, s)) for i in range(ncoef)] if program else None
        self.tprog = TemperatureProgram(coefficients=list(self.coefs), type=program) if program else None
        self.cond = pv.Conditions(membrane_area=self.A, initial_feed_temperature=self.T0, initial_feed_amount=self.m0,
                                  initial_feed_composition=build.comp(self.x0, basis), permeate_temperature=self.Tp,
                                  permeate_pressure=self.Pp, temperature_program=self.tprog)
        self.membrane = build.StubMembrane(self.mix)
        self.pz = build.pervaporation(self.mix, self.membrane)
        self.calls = []
        self.fit_calls = []
        self.fits = {}
        # curve set for the non-ideal models: symbolic points, built without running the constructor
        self.curves = None
        if not self.ideal:
            cs = []
            for c in range(n_curves):
                dc = build.bare(DiffusionCurve)
                dc.mixture = self.mix
                dc.membrane_name = "stub"
                dc.feed_temperature = real("Tc%d%s" % (c, s))
                dc.feed_compositions = [build.comp(real("cx%d_%d%s" % (c, i, s)), curve_basis) for i in range(2)]
                dc.permeances = [(build.perm(real("cP1_%d_%d%s" % (c, i, s))), build.perm(real("cP2_%d_%d%s" % (c, i, s)))) for i in range(2)]
                dc.partial_fluxes = None
                dc.permeate_temperature = dc.permeate_pressure = dc.comments = None
                cs.append(dc)
            self.curves = DiffusionCurveSet(name="set", diffusion_curves=cs)
            self.P0 = (build.perm(real("P0_1" + s), p0_units), build.perm(real("P0_2" + s), p0_units)) if initial_permeances else None

    # ---------------------------------------------------------------------------------------------
    def domain(self):
        d = [self.A.t > 0, self.T0.t > 273, self.T0.t < 400, self.m0.t > 0, self.x0.t > 0, self.x0.t < 1, self.dt.t > 0,
             self.prec.t > 0, self.prec.t <= 1, lift(self.M1) > 0, lift(self.M2) > 0]
        if self.Tp is not None:
            d += [self.Tp.t >= 120, self.Tp.t <= self.T0.t]
        if self.Pp is not None:
            d += [self.Pp.t >= 0, self.Pp.t <= 100]
        if not self.ideal:
            for dc in self.curves.diffusion_curves:
                d += [dc.feed_temperature.t > 273, dc.feed_temperature.t < 400]
            if self.P0:
                d += [self.P0[0].value.t > 0, self.P0[1].value.t > 0]
        return d

    def inputs(self, **extra):
        d = {"kind": self.kind, "mode": self.mode, "basis": self.basis, "program": self.program, "N": self.N, "model": self.model,
             "A": self.A.t, "T0": self.T0.t, "m0": self.m0.t, "x0": self.x0.t, "dt": self.dt.t, "prec": self.prec.t,
             "initial_permeances": self.initial_permeances, "n_curves": self.n_curves}
        if self.Tp is not None:
            d["Tp"] = self.Tp.t
        if self.Pp is not None:
            d["Pp"] = self.Pp.t
        if self.coefs:
            for i, c in enumerate(self.coefs):
                d["tc%d" % i] = c.t
        d.update(extra)
        return d

    # ---------------------------------------------------------------------------------------------
    def install(self, pt, validator="assume", flux="stub", heats=True, fit="stub", clamp="assume", name_state=False):
        me = self

        def _name(v, prefix):
            if isinstance(v, SReal) and not z3.is_const(v.t) and not build.is_num(v.t):
                return named(v, prefix)
            return v

        if heats:
            build.stub_thermo(pt, self.mix, gamma=False, psat=False, heats=True)
        if validator == "assume":
            build.assume_validator(pt)
        if clamp == "assume":
            build.assume_permeance_clamp(pt)
        if flux == "stub":
            def stub_flux(self_, *a, **kw):
                ba = _SIG.bind(self_, *a, **kw)
                ba.apply_defaults()
                args = dict(ba.arguments)
                args.pop("self")
                k = len(me.calls)
                comp = args["composition"]
                P1, P2 = args["first_component_permeance"], args["second_component_permeance"]
                if name_state:
                    # give the per-step state fresh names (defining equalities join the path condition): keeps every
                    # later term small.  The lists are the caller's own (looked up by name; absent names: no naming)
                    comp.p = _name(comp.p, "p%d_" % k)
                    for P in (P1, P2):
                        if P is not None:
                            P.value = _name(P.value, "P%d_" % k)
                    fr = sys._getframe(1)
                    old_T = None
                    for _ in range(4):
                        if fr is None:
                            break
                        loc = fr.f_locals
                        if isinstance(loc.get("feed_mass"), list):
                            for lname in ("feed_mass", "feed_temperature"):
                                lst = loc.get(lname)
                                if isinstance(lst, list) and lst:
                                    if lname == "feed_temperature":
                                        old_T = lst[-1]
                                    lst[-1] = _name(lst[-1], lname[5] + "%d_" % k)
                            break
                        fr = fr.f_back
                    aT = args["feed_temperature"]
                    if isinstance(aT, SReal) and isinstance(old_T, SReal) and (aT is old_T or z3.eq(aT.t, old_T.t)):
                        # the argument was read before the list element was renamed -- only when it *is* that element:
                        # a temperature argument that is some other term stays what the caller passed
                        ft = fr.f_locals.get("feed_temperature")
                        args["feed_temperature"] = ft[-1]
                name = "%s_%s_%s" % (args["calculation_type"], comp.type,
                                     "vac" if args["permeate_temperature"] is None and args["permeate_pressure"] is None
                                     else "ptemp" if args["permeate_pressure"] is None else "ppres" if args["permeate_temperature"] is None else "both")
                sym = [args["feed_temperature"], comp.p, args["precision"]]
                if args["permeate_temperature"] is not None:
                    sym.append(args["permeate_temperature"])
                if args["permeate_pressure"] is not None:
                    sym.append(args["permeate_pressure"])
                sym += [P1.value if P1 is not None else -1, P2.value if P2 is not None else -1]
                j = (SReal(UF("FLUX1_" + name, *sym)), SReal(UF("FLUX2_" + name, *sym)))
                me.calls.append((args, j))
                return j

            from .core import require
            require(Pervaporation, "calculate_partial_fluxes")
            pt.set(Pervaporation, "calculate_partial_fluxes", stub_flux)
        if fit == "stub" and not self.ideal:
            def stub_fit(data, include_zero=False, component_index=0, n=None, m=None):
                me.fit_calls.append({"data": data, "include_zero": include_zero, "component_index": component_index, "n": n, "m": m})
                i = component_index
                nb = 1 if m == 0 else 2
                f = PervaporationFunction(n=1, m=nb - 1, alpha=real("fit%d_alpha" % i),
                                          a=numpy.array([real("fit%d_a0" % i)], dtype=object),
                                          b=numpy.array([real("fit%d_b%d" % (i, q)) for q in range(nb)], dtype=object))
                me.fits[i] = {"alpha": f.alpha, "a": list(f.a), "b": list(f.b), "obj": f}
                return f

            from .core import require
            require(pvmod, "find_best_fit")
            pt.set(pvmod, "find_best_fit", stub_fit)

    def run(self):
        # the flux stub may rename state held in input objects in place (name_state): start every path from
        # fresh input objects so that no name leaks from one explored path into the next
        ic = self.cond.initial_feed_composition
        if not hasattr(self, "_ic0"):
            self._ic0 = (ic.p, ic.type)
        self.cond.initial_feed_composition = build.comp(*self._ic0)
        if getattr(self, "P0", None):
            if not hasattr(self, "_P00"):
                self._P00 = [(P.value, P.units) for P in self.P0]
            self.P0 = tuple(build.perm(v, u) for v, u in self._P00)
        self.calls.clear()
        self.fit_calls.clear()
        self.membrane.calls.clear()
        f = getattr(self.pz, self.kind)
        kw = dict(conditions=self.cond, number_of_steps=self.N, delta_hours=self.dt, precision=self.prec, calculation_type=self.model)
        if not self.ideal:
            # pairwise different orders, so that an order handed to the wrong component or the wrong slot is visible in the recorded search calls
            kw.update(diffusion_curve_set=self.curves, initial_permeances=self.P0, n_first=1, n_second=2,
                      m_first=None if self.n_curves == 1 else 1, m_second=None if self.n_curves == 1 else 3)
        return f(**kw)

    def requested_orders(self, component_index):
        """(n, m) the model has to pass to the best-fit search for this component (m = 0 with a single curve: the models' own rule)"""
        n = (1, 2)[component_index]
        return n, (0 if self.n_curves == 1 else (1, 3)[component_index])

    # -- oracles --------------------------------------------------------------------------------
    def w0(self):
        """initial composition as mass fraction"""
        return build.w_of_x(self.x0, self.M1, self.M2) if self.basis == "molar" else self.x0.t

    def program_at(self, t):
        """closed forms of the three temperature programmes (the statement of TemperatureProgram)"""
        c = [x.t for x in self.coefs]
        if self.program == "polynomial":
            r = z3.RealVal(0)
            for i, ci in enumerate(c):
                term = ci
                for _ in range(i):
                    term = term * t
                r = r + term
            return r
        inner = z3.RealVal(0)
        for i in range(1, len(c)):
            term = c[i]
            for _ in range(i - 1):
                term = term * t
            inner = inner + term
        return c[0] * (EXP(inner) if self.program == "exponential" else LOG(inner))


def series(model):
    """the list-valued fields of a ProcessModel"""
    out = {}
    for name in ("feed_temperature", "feed_compositions", "permeate_composition", "permeate_temperature", "permeate_pressure",
                 "feed_mass", "partial_fluxes", "permeances", "time", "feed_evaporation_heat", "permeate_condensation_heat"):
        out[name] = getattr(model, name)
    return out

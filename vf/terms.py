"""Term transformations applied before a query (DESIGN 2.5) and numeric evaluation of terms.

All functions understand the purification table of symx: a variable `EXP!k` stands for EXP(arg_k).
"""
import math

import z3

from .symx import Pure, EXP, LOG, is_num, num_value, fresh

ZERO = z3.RealVal(0)
ONE = z3.RealVal(1)


def is0(t):
    return is_num(t) and t.numerator_as_long() == 0


def is1(t):
    return is_num(t) and t.numerator_as_long() == 1 and t.denominator_as_long() == 1


def mul(a, b):
    if is0(a) or is0(b):
        return ZERO
    if is1(a):
        return b
    if is1(b):
        return a
    return a * b


def add(a, b):
    if is0(a):
        return b
    if is0(b):
        return a
    return a + b


def sub(a, b):
    if is0(b):
        return a
    if is0(a):
        return -b
    return a - b


def div(a, b):
    if is0(a):
        return ZERO
    if is1(b):
        return a
    return a / b


def fpow(t, n):
    r = ONE
    for _ in range(n):
        r = mul(r, t)
    return r


# ------------------------------------------------------------------------------------------------


def ln(t):
    """logarithm of a term: ln(EXP(u)) -> u"""
    return LOG(t)


def deriv(t, v, cache=None):
    """symbolic derivative d t / d v (v a z3 constant); purified EXP/LOG are differentiated through"""
    if cache is None:
        cache = {}
    k = t.get_id()
    if k not in cache:
        cache[k] = _deriv(t, v, cache)
    return cache[k]


def _deriv(t, v, cache):
    if is_num(t):
        return ZERO
    if z3.is_const(t):
        if t.eq(v):
            return ONE
        hit = Pure.lookup(t)
        if hit is None:
            return ZERO
        name, args = hit
        if name == "EXP":
            return mul(t, deriv(args[0], v, cache))
        if name == "LOG":
            return div(deriv(args[0], v, cache), args[0])
        if name == "SQRT":
            return div(deriv(args[0], v, cache), mul(z3.RealVal(2), t))
        for a in args:
            if not is0(deriv(a, v, cache)):
                raise NotImplementedError("derivative through stub %s" % name)
        return ZERO
    kind = t.decl().kind()
    ch = t.children()
    if kind == z3.Z3_OP_ADD:
        r = ZERO
        for c in ch:
            r = add(r, deriv(c, v, cache))
        return r
    if kind == z3.Z3_OP_SUB:
        r = deriv(ch[0], v, cache)
        for c in ch[1:]:
            r = sub(r, deriv(c, v, cache))
        return r
    if kind == z3.Z3_OP_UMINUS:
        d = deriv(ch[0], v, cache)
        return ZERO if is0(d) else -d
    if kind == z3.Z3_OP_MUL:
        r = ZERO
        for i, c in enumerate(ch):
            term = deriv(c, v, cache)
            if is0(term):
                continue
            for j, o in enumerate(ch):
                if j != i:
                    term = mul(term, o)
            r = add(r, term)
        return r
    if kind == z3.Z3_OP_DIV:
        a, b = ch
        da, db = deriv(a, v, cache), deriv(b, v, cache)
        if is0(db):
            return div(da, b)
        return div(sub(mul(da, b), mul(a, db)), mul(b, b))
    if kind == z3.Z3_OP_POWER and is_num(ch[1]):
        n = num_value(ch[1])
        return mul(mul(ch[1], ch[0] ** z3.RealVal(str(n - 1))), deriv(ch[0], v, cache))
    raise NotImplementedError("deriv of %s" % t.decl())


def depends(t, v, memo=None):
    """does t depend on variable v (looking through purified applications)?"""
    if memo is None:
        memo = {}
    k = t.get_id()
    if k in memo:
        return memo[k]
    if t.eq(v):
        r = True
    elif z3.is_const(t):
        hit = Pure.lookup(t)
        r = bool(hit) and any(depends(a, v, memo) for a in hit[1])
    else:
        r = any(depends(c, v, memo) for c in t.children())
    memo[k] = r
    return r


def expand_pure(t, memo=None, only=("EXP", "LOG", "SQRT")):
    """replace purified EXP/LOG variables by explicit (uninterpreted) applications, recursively"""
    if memo is None:
        memo = {}
    k = t.get_id()
    if k in memo:
        return memo[k]
    if z3.is_const(t):
        hit = Pure.lookup(t)
        if hit is not None and hit[0] in only:
            f = z3.Function(hit[0] + "_f", *([z3.RealSort()] * (len(hit[1]) + 1)))
            r = f(*[expand_pure(a, memo, only) for a in hit[1]])
        else:
            r = t
    elif is_num(t):
        r = t
    else:
        r = t.decl()(*[expand_pure(c, memo, only) for c in t.children()])
    memo[k] = r
    return r


def generalise(t, v, table, memo=None, dmemo=None):
    """replace maximal *atoms* (purified variables, divisions) free of v by fresh constants.
    Sound for unsat: the fresh constants are unconstrained except for positivity of EXP atoms."""
    if memo is None:
        memo = {}
    if dmemo is None:
        dmemo = {}
    k = t.get_id()
    if k in memo:
        return memo[k]
    if is_num(t):
        r = t
    elif z3.is_const(t):
        hit = Pure.lookup(t)
        if hit is None or not depends(t, v, dmemo):
            r = t  # plain variable, or a v-free purified atom: already atomic
        else:
            # v-dependent purified application: keep as application over generalised arguments
            name, args = hit
            gargs = [generalise(a, v, table, memo, dmemo) for a in args]
            if name == "EXP":
                r = EXP(gargs[0])
            elif name == "LOG":
                r = LOG(gargs[0])
            else:
                r = Pure.app(name, gargs)
    elif not depends(t, v, dmemo) and t.decl().kind() == z3.Z3_OP_DIV:
        ts = z3.simplify(t)
        if is_num(ts):
            r = ts
        else:
            key = ts.get_id()
            if key not in table:
                table[key] = (fresh("k"), ts)
            r = table[key][0]
    else:
        r = t.decl()(*[generalise(c, v, table, memo, dmemo) for c in t.children()])
    memo[k] = r
    return r


class Frac:
    """fraction normal form with LCD tracking: term = num / prod(factor^power)"""

    def __init__(self):
        self.factors = {}  # id -> term
        self.memo = {}

    def dterm(self, d):
        r = ONE
        for k, n in d.items():
            r = mul(r, fpow(self.factors[k], n))
        return r

    def _split(self, t, d, power):
        """register the multiplicative factors of a denominator term in multiset d; returns the numeric
        coefficient that is left over (divided out of the numerator)"""
        if is_num(t):
            return fpow(t, power)
        kind = t.decl().kind()
        if kind == z3.Z3_OP_MUL:
            c = ONE
            for ch in t.children():
                c = mul(c, self._split(ch, d, power))
            return z3.simplify(c) if not is1(c) else c
        if kind == z3.Z3_OP_POWER and is_num(t.arg(1)) and num_value(t.arg(1)).denominator == 1 and num_value(t.arg(1)) > 0:
            return self._split(t.arg(0), d, power * int(num_value(t.arg(1))))
        if kind == z3.Z3_OP_UMINUS:
            return -self._split(t.arg(0), d, power) if power % 2 else self._split(t.arg(0), d, power)
        self.factors[t.get_id()] = t
        d[t.get_id()] = d.get(t.get_id(), 0) + power
        return ONE

    def of(self, t):
        k = t.get_id()
        if k in self.memo:
            return self.memo[k]
        kind = t.decl().kind()
        ch = t.children()
        if not ch:
            r = (t, {})
        elif kind in (z3.Z3_OP_ADD, z3.Z3_OP_SUB):
            n, d = self.of(ch[0])
            for c in ch[1:]:
                n2, d2 = self.of(c)
                if kind == z3.Z3_OP_SUB:
                    n2 = -n2
                l = dict(d)
                for f, p in d2.items():
                    l[f] = max(l.get(f, 0), p)
                m1 = {f: l[f] - d.get(f, 0) for f in l if l[f] - d.get(f, 0) > 0}
                m2 = {f: l[f] - d2.get(f, 0) for f in l if l[f] - d2.get(f, 0) > 0}
                n = add(mul(n, self.dterm(m1)), mul(n2, self.dterm(m2)))
                d = l
            r = (n, d)
        elif kind == z3.Z3_OP_UMINUS:
            n, d = self.of(ch[0])
            r = (-n, d)
        elif kind == z3.Z3_OP_MUL:
            n, d = ONE, {}
            for c in ch:
                n2, d2 = self.of(c)
                n = mul(n, n2)
                d = dict(d)
                for f, p in d2.items():
                    d[f] = d.get(f, 0) + p
            r = (n, d)
        elif kind == z3.Z3_OP_DIV:
            n1, d1 = self.of(ch[0])
            n2, d2 = self.of(ch[1])
            d = dict(d1)
            coeff = self._split(z3.simplify(n2), d, 1)
            num = mul(n1, self.dterm(d2))
            if not is1(coeff):
                num = div(num, coeff)
            r = (num, d)
        else:
            r = (t, {})
        self.memo[k] = r
        return r


def denominators(t, acc=None, seen=None):
    if acc is None:
        acc, seen = [], set()
    if t.get_id() in seen:
        return acc
    seen.add(t.get_id())
    if z3.is_app(t) and t.decl().kind() == z3.Z3_OP_DIV:
        acc.append(t.arg(1))
    for c in t.children():
        denominators(c, acc, seen)
    return acc


def zero_query(t, extra=()):
    """constraints whose unsatisfiability shows `t == 0` wherever all its denominators are non-zero:
    division-free numerator != 0 plus factor != 0."""
    fr = Frac()
    n, d = fr.of(t)
    cons = [f != 0 for f in fr.factors.values()]
    cons += [q != 0 for q in denominators(t)]
    cons.append(n != 0)
    cons.extend(extra)
    return cons, len(fr.factors)


# ------------------------------------------------------------------------------------------------
# exp-normal form: t = sum_i coeff_i * EXP(arg_i) with rational-function coefficients


def exp_normal(t):
    """rewrite products / quotients / integer powers of EXP atoms: returns an equivalent term in
    which every monomial carries at most one EXP atom (EXP(u)*EXP(v) -> EXP(u+v), 1/EXP(u) -> EXP(-u))."""
    memo = {}

    def split(t):
        """t -> (coefficient term free of top-level EXP factors, exponent term or None)"""
        k = t.get_id()
        if k in memo:
            return memo[k]
        r = _split(t)
        memo[k] = r
        return r

    def _split(t):
        if z3.is_const(t):
            hit = Pure.lookup(t)
            if hit is not None and hit[0] == "EXP":
                return (ONE, hit[1][0])
            return (t, None)
        if is_num(t):
            return (t, None)
        kind = t.decl().kind()
        ch = t.children()
        if kind == z3.Z3_OP_MUL:
            c, e = ONE, None
            for x in ch:
                c2, e2 = split(x)
                c = mul(c, c2)
                if e2 is not None:
                    e = e2 if e is None else e + e2
            return (c, e)
        if kind == z3.Z3_OP_DIV:
            c1, e1 = split(ch[0])
            c2, e2 = split(ch[1])
            e = e1
            if e2 is not None:
                e = -e2 if e is None else e - e2
            return (div(c1, c2), e)
        if kind == z3.Z3_OP_UMINUS:
            c, e = split(ch[0])
            return (-c, e)
        if kind in (z3.Z3_OP_ADD, z3.Z3_OP_SUB):
            return (t.decl()(*[norm(x) for x in ch]), None)
        return (t, None)

    def norm(t):
        c, e = split(t)
        if e is None:
            return c
        return mul(c, EXP(e))

    return norm(t)


# ------------------------------------------------------------------------------------------------
# numeric evaluation (translator validation, replay of models)


def evaluate(t, env, funcs=None, memo=None):
    """float value of a term; env: {z3 const name: float}; purified variables are evaluated through
    their definition (EXP/LOG/SQRT by math, stubs by funcs[name](*args))"""
    if memo is None:
        memo = {}
    k = t.get_id()
    if k in memo:
        return memo[k]
    r = _evaluate(t, env, funcs or {}, memo)
    memo[k] = r
    return r


def _evaluate(t, env, funcs, memo):
    if is_num(t):
        return t.numerator_as_long() / t.denominator_as_long()
    if z3.is_const(t):
        name = t.decl().name()
        if name in env:
            return env[name]
        if z3.is_true(t):
            return True
        if z3.is_false(t):
            return False
        hit = Pure.lookup(t)
        if hit is None:
            raise KeyError(name)
        fname, args = hit
        vals = [evaluate(a, env, funcs, memo) for a in args]
        if fname == "EXP":
            return math.exp(vals[0])
        if fname == "LOG":
            return math.log(vals[0])
        if fname == "SQRT":
            return math.sqrt(vals[0])
        return funcs[fname](*vals)
    kind = t.decl().kind()
    ch = [evaluate(c, env, funcs, memo) for c in t.children()] if kind != z3.Z3_OP_ITE else None
    if kind == z3.Z3_OP_ADD:
        return sum(ch)
    if kind == z3.Z3_OP_SUB:
        r = ch[0]
        for c in ch[1:]:
            r -= c
        return r
    if kind == z3.Z3_OP_MUL:
        r = 1.0
        for c in ch:
            r *= c
        return r
    if kind == z3.Z3_OP_DIV:
        return ch[0] / ch[1]
    if kind == z3.Z3_OP_UMINUS:
        return -ch[0]
    if kind == z3.Z3_OP_POWER:
        return ch[0] ** ch[1]
    if kind == z3.Z3_OP_ITE:
        c = evaluate(t.arg(0), env, funcs, memo)
        return evaluate(t.arg(1) if c else t.arg(2), env, funcs, memo)
    if kind == z3.Z3_OP_GE:
        return ch[0] >= ch[1]
    if kind == z3.Z3_OP_GT:
        return ch[0] > ch[1]
    if kind == z3.Z3_OP_LE:
        return ch[0] <= ch[1]
    if kind == z3.Z3_OP_LT:
        return ch[0] < ch[1]
    if kind == z3.Z3_OP_EQ:
        return ch[0] == ch[1]
    if kind == z3.Z3_OP_DISTINCT:
        return ch[0] != ch[1]
    if kind == z3.Z3_OP_AND:
        return all(ch)
    if kind == z3.Z3_OP_OR:
        return any(ch)
    if kind == z3.Z3_OP_NOT:
        return not ch[0]
    if kind == z3.Z3_OP_TO_REAL:
        return float(ch[0])
    raise NotImplementedError("evaluate %s" % t.decl())


def free_vars(t, acc=None, seen=None):
    """names of the plain (non purified) constants a term depends on, looking through the table"""
    if acc is None:
        acc, seen = set(), set()
    if t.get_id() in seen:
        return acc
    seen.add(t.get_id())
    if z3.is_const(t) and not is_num(t) and t.decl().kind() == z3.Z3_OP_UNINTERPRETED:
        hit = Pure.lookup(t)
        if hit is None:
            acc.add(t.decl().name())
        else:
            for a in hit[1]:
                free_vars(a, acc, seen)
    for c in t.children():
        free_vars(c, acc, seen)
    return acc


def subst(t, mapping, memo=None):
    """substitute plain variables (mapping: list of (var, term)); purified applications whose arguments
    change are rebuilt through their constructors (so EXP(0) -> 1, LOG(1) -> 0 fold)"""
    from .symx import SQRT

    if memo is None:
        memo = {}
    k = t.get_id()
    if k in memo:
        return memo[k]
    if is_num(t):
        r = t
    elif z3.is_const(t):
        r = t
        for v, val in mapping:
            if t.eq(v):
                r = val
                break
        else:
            hit = Pure.lookup(t)
            if hit is not None:
                name, args = hit
                nargs = [subst(a, mapping, memo) for a in args]
                if any(not a.eq(b) for a, b in zip(args, nargs)):
                    nargs = [z3.simplify(a) for a in nargs]
                    if name == "EXP":
                        r = EXP(nargs[0])
                    elif name == "LOG":
                        r = LOG(nargs[0])
                    elif name == "SQRT":
                        r = SQRT(nargs[0])
                    else:
                        r = Pure.app(name, nargs)
    else:
        r = t.decl()(*[subst(c, mapping, memo) for c in t.children()])
    memo[k] = r
    return r


# ------------------------------------------------------------------------------------------------
# canonical rational form (sympy): used to key purified applications in relational checks


_canon_cache = {}


def _size(t, seen):
    if t.get_id() in seen:
        return 0
    seen.add(t.get_id())
    return 1 + sum(_size(c, seen) for c in t.children())


def canon(t, max_size=120):
    """a canonical representative of the rational function t (reduced fraction, expanded, sympy's term order);
    semantically equal to t wherever t's denominators are non-zero.  Atoms: variables (incl. purified ones).
    Terms that are too large or contain other operators are returned unchanged."""
    import sympy

    k = t.get_id()
    if k in _canon_cache:
        return _canon_cache[k][1]
    out = t
    if is_num(t) or z3.is_const(t):
        return t
    if _size(t, set()) <= max_size:
        atoms = {}

        def to_sp(u):
            if is_num(u):
                return sympy.Rational(u.numerator_as_long(), u.denominator_as_long())
            if z3.is_const(u):
                s = sympy.Symbol("v%d" % u.get_id())
                atoms[s] = u
                return s
            kind = u.decl().kind()
            ch = [to_sp(c) for c in u.children()]
            if kind == z3.Z3_OP_ADD:
                return sympy.Add(*ch)
            if kind == z3.Z3_OP_SUB:
                return ch[0] - sympy.Add(*ch[1:])
            if kind == z3.Z3_OP_MUL:
                return sympy.Mul(*ch)
            if kind == z3.Z3_OP_DIV:
                return ch[0] / ch[1]
            if kind == z3.Z3_OP_UMINUS:
                return -ch[0]
            raise NotImplementedError

        def to_z3(e):
            if e.is_Rational:
                return z3.RealVal("%d/%d" % (e.p, e.q))
            if e.is_Symbol:
                return atoms[e]
            if e.is_Add:
                args = [to_z3(a) for a in e.as_ordered_terms()]
                r = args[0]
                for a in args[1:]:
                    r = r + a
                return r
            if e.is_Mul:
                args = [to_z3(a) for a in e.as_ordered_factors()]
                r = args[0]
                for a in args[1:]:
                    r = r * a
                return r
            if e.is_Pow and e.exp.is_Integer and e.exp > 0:
                b = to_z3(e.base)
                r = b
                for _ in range(int(e.exp) - 1):
                    r = r * b
                return r
            raise NotImplementedError

        import signal

        def _alarm(signum, frame):
            raise TimeoutError()

        old = None
        try:
            try:
                old = signal.signal(signal.SIGALRM, _alarm)
                signal.setitimer(signal.ITIMER_REAL, 2.0)
            except ValueError:
                old = None  # not in the main thread: no time guard
            e = sympy.cancel(sympy.together(to_sp(t)))
            n, d = sympy.fraction(e)
            n, d = sympy.expand(n), sympy.expand(d)
            out = to_z3(n) if d == 1 else to_z3(n) / to_z3(d)
        except (NotImplementedError, RecursionError, TimeoutError):
            out = t
        finally:
            if old is not None:
                signal.setitimer(signal.ITIMER_REAL, 0)
                signal.signal(signal.SIGALRM, old)
    _canon_cache[k] = (t, out)
    return out
